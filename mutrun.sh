#!/bin/bash
# usage: mutrun.sh PROP file old new [occ]   : literal mutation, run quick check, restore
PROP=$1; shift
/venv/bin/python /verif/mutate.py "$@" || exit 9
cd /verif && timeout 1500 /venv/bin/python -m vf.run $PROP --tier ${TIER:-quick} --no-confirm 2>&1 | grep -E "^(violation|HARNESS|C[0-9]+ tier)" | cut -c1-260 | head -3
git -C /repo checkout -- . ; echo "--- restored ($(git -C /repo status --short | wc -l) dirty)"
