#!/usr/bin/env python3
"""Regenerates the seeded-change table of DESIGN.md section 7 from /verif/seeded/*/meta.json, seeded/NOTES.json and
seeded/DETECTION.json (written by seedall.sh)."""
import json
import os
import re

V = os.path.dirname(os.path.abspath(__file__))
notes = json.load(open(os.path.join(V, "seeded", "NOTES.json")))
det = {}
p = os.path.join(V, "seeded", "DETECTION.json")
if os.path.exists(p):
    det = json.load(open(p))
rows = []
for sid in sorted(os.listdir(os.path.join(V, "seeded"))):
    mp = os.path.join(V, "seeded", sid, "meta.json")
    if not os.path.exists(mp):
        continue
    m = json.load(open(mp))
    what = re.sub(r"\s+", " ", m.get("what", ""))
    site = ", ".join(m.get("files_changed", []))
    needs = re.sub(r"\s+", " ", m.get("needs", ""))
    d = det.get(sid, {})
    caught = d.get("caught_by", "?")
    rows.append("| %s | %s | %s | %s | %s |" % (sid, site.replace("pyyeti/", ""), (needs[:230] + "...") if len(needs) > 230 else needs, caught, notes.get(sid, "caught by the check as it stood")))
hdr = "| seed | file | needs, to manifest | caught by | remark |\n|------|------|--------------------|-----------|--------|\n"
out = hdr + "\n".join(rows) + "\n"
doc = open(os.path.join(V, "DESIGN.md")).read()
a = doc.index("<!-- SEEDTABLE-BEGIN -->")
b = doc.index("<!-- SEEDTABLE-END -->")
doc = doc[:a] + "<!-- SEEDTABLE-BEGIN -->\n" + out + doc[b:]
open(os.path.join(V, "DESIGN.md"), "w").write(doc)
print("%d seeds" % len(rows))
