#!/bin/bash
# runs every filed seed against its property's quick check (plus extra checks listed in seeded/<id>/also) in scratch worktrees
# and writes seeded/DETECTION.json.  usage: seedall.sh [jobs]
cd /verif
J=${1:-3}
ls seeded | grep -E "^C[0-9]+_[0-9]+$" | xargs -P $J -I{} bash -c '
  s={}; props=${s%%_*}; [ -f seeded/$s/also ] && props="$props $(cat seeded/$s/also)"
  caught=""
  for pr in $props; do
    out=$(./seedrun.sh $s $pr 2>&1 | grep -E "^(VIOLATION|HARNESS|patch does not)" | head -1)
    case "$out" in VIOLATION*) caught="$caught $pr";; HARNESS*) caught="$caught $pr(harness-error)";; patch*) caught="$caught patch-does-not-apply";; esac
  done
  echo "$s|$(echo $caught | sed "s/^ //")"
' > /tmp/seedall.out
python3 - <<'PY'
import json
d={}
for l in open('/tmp/seedall.out'):
    if '|' in l:
        a,b=l.strip().split('|',1); d[a]={"caught_by": b}
json.dump(d, open('/verif/seeded/DETECTION.json','w'), indent=1, sort_keys=True)
print(len(d), "seeds;", sum(1 for v in d.values() if not v["caught_by"]), "not caught:", [k for k,v in d.items() if not v["caught_by"]])
PY
