#!/bin/bash
# runs every filed seed against its property's quick check (plus extra checks given in seeded/<id>/also) and writes seeded/DETECTION.json
cd /verif
echo "{" > /tmp/det.json; first=1
for s in $(ls seeded | grep -E "^C[0-9]+_[0-9]+$"); do
  props=${s%%_*}
  [ -f seeded/$s/also ] && props="$props $(cat seeded/$s/also)"
  caught=""
  git -C /repo apply seeded/$s/patch.diff || { echo "patch $s does not apply"; continue; }
  for pr in $props; do
    out=$(timeout 2400 /venv/bin/python -m vf.run $pr --tier quick 2>&1 | grep -E "^(VIOLATION|HARNESS)" | head -1)
    case "$out" in VIOLATION*) caught="$caught $pr";; HARNESS*) caught="$caught $pr(harness-error)";; esac
  done
  git -C /repo checkout -- .
  [ $first = 1 ] || echo "," >> /tmp/det.json; first=0
  echo "\"$s\": {\"caught_by\": \"$(echo $caught | sed 's/^ //')\"}" >> /tmp/det.json
  echo "$s -> $caught"
done
echo "}" >> /tmp/det.json
python3 -c "import json; d=json.load(open('/tmp/det.json')); json.dump(d, open('/verif/seeded/DETECTION.json','w'), indent=1, sort_keys=True)"
