import sys
from vf.core import main

if __name__ == "__main__":
    sys.exit(main())
