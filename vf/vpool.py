"""K3: virtual multiprocessing pool + exhaustive schedule enumeration.

pyYeti's only concurrency is ``mp.Pool(n, initializer, initargs).imap_unordered``
in srs.srs and fdepsd.fdepsd.  ``VirtualMP`` replaces the module attribute
``mp`` of those modules: W virtual workers, each with a private copy of the
module-level globals taken with fork semantics at pool creation, the real
initializer run per worker, real RawArray shared memory, and the real task
functions executed in the order a schedule dictates.

A schedule is the completion history ((worker, task), ...) of the pool model
in /verif/tla/Pool.tla; the set of schedules is generated twice (TLC state
graph, Python enumerator) and the two must coincide."""
import copy
import multiprocessing as real_mp
import os
import re
import shutil
import subprocess
import tempfile
import types

import numpy as np

from vf.core import VERIF, HarnessError

TLA_DIR = os.path.join(VERIF, "tla")


# ------------------------------------------------------------------ schedules
def enumerate_schedules(LF, W):
    """explicit-state search of the pool model; returns (set of hists, n_states, n_transitions)
    hist = tuple of (worker 1..W, task 1..LF) in completion order"""
    init = (1, (0,) * W, ())
    seen = {init}
    stack = [init]
    trans = 0
    finals = set()
    while stack:
        nxt, busy, hist = stack.pop()
        succ = []
        for w in range(W):
            if busy[w] == 0 and nxt <= LF:
                b = list(busy)
                b[w] = nxt
                succ.append((nxt + 1, tuple(b), hist))
            if busy[w] != 0:
                b = list(busy)
                t = b[w]
                b[w] = 0
                succ.append((nxt, tuple(b), hist + ((w + 1, t),)))
        if not succ:
            finals.add(hist)
        for s in succ:
            trans += 1
            if s not in seen:
                seen.add(s)
                stack.append(s)
    return finals, len(seen), trans


def sched_inorder(LF, W):
    """tasks complete in submission order, handed round-robin to the workers"""
    return tuple((1 + (i % W), i + 1) for i in range(LF))


def sched_batch_reversed(LF, W):
    """W tasks in flight at a time on workers 1..W; every batch completes in reverse order"""
    out = []
    for b in range(0, LF, W):
        batch = list(range(b, min(b + W, LF)))
        out += [(1 + (i - b), i + 1) for i in reversed(batch)]
    return tuple(out)


def sched_last_worker_first(LF, W):
    """worker 1 holds task 1 until the very end while the other workers (or, with one worker, nobody) do the rest in order"""
    if W == 1 or LF == 1:
        return sched_inorder(LF, W)
    out = [(2 + ((i - 1) % (W - 1)), i + 1) for i in range(1, LF)]
    return tuple(out + [(1, 1)])


def feasible(sched, LF, W):
    """is `sched` a completion history of the pool model (in-order dispatch, <= W in flight, one task per worker)?
    Tasks are dispatched as late as possible (the most permissive choice) to the worker the history names."""
    worker_of = {t: w for w, t in sched}
    if sorted(worker_of) != list(range(1, LF + 1)) or len(sched) != LF or any(not 1 <= w <= W for w in worker_of.values()):
        return False
    nxt, busy = 1, {}
    for w, t in sched:
        while nxt <= t:
            if worker_of[nxt] in busy:
                return False
            busy[worker_of[nxt]] = nxt
            nxt += 1
        if busy.get(w) != t:
            return False
        del busy[w]
    return not busy


_HIST_RE = re.compile(r"hist = (<<.*>>)")


def _parse_hist(txt):
    nums = [int(x) for x in re.findall(r"\d+", txt)]
    return tuple((nums[i], nums[i + 1]) for i in range(0, len(nums), 2))


def tlc_schedules(LF, W, timeout=300):
    """run TLC on tla/Pool.tla, dump the labelled state graph, return
    (set of terminal hists, distinct states, transitions) or None if TLC is unavailable"""
    if not shutil.which("tlc"):
        return None
    tmp = tempfile.mkdtemp(prefix="vf_tlc_")
    try:
        cfg = os.path.join(tmp, "Pool.cfg")
        with open(cfg, "w") as f:
            f.write("CONSTANTS\n  LF = %d\n  W = %d\nSPECIFICATION Spec\nINVARIANT TypeOK\nINVARIANT InFlight\n" % (LF, W))
        shutil.copy(os.path.join(TLA_DIR, "Pool.tla"), os.path.join(tmp, "Pool.tla"))
        out = os.path.join(tmp, "graph")
        try:
            p = subprocess.run(
                ["tlc", "-workers", "1", "-noGenerateSpecTE", "-metadir", os.path.join(tmp, "meta"), "-deadlock",
                 "-dump", "dot,actionlabels", out, "-config", cfg, os.path.join(tmp, "Pool.tla")],
                capture_output=True, text=True, timeout=timeout, cwd=tmp)
        except subprocess.TimeoutExpired:
            return None  # (an overloaded machine: the cross-check is reported as skipped, the Python enumeration still runs)
        if "Model checking completed. No error has been found." not in p.stdout:
            raise HarnessError("TLC failed on Pool.tla (LF=%d, W=%d):\n%s" % (LF, W, p.stdout[-2000:] + p.stderr[-500:]))
        m = re.search(r"(\d+) states generated, (\d+) distinct states found", p.stdout)
        distinct = int(m.group(2))
        labels = {}
        outdeg = {}
        edges = 0
        with open(out + ".dot") as f:
            for line in f:
                line = line.strip()
                me = re.match(r"^(-?\d+) -> (-?\d+) ", line)
                if me:
                    a, b = me.group(1), me.group(2)
                    edges += 1
                    if a != b:
                        outdeg[a] = outdeg.get(a, 0) + 1
                    continue
                mn = re.match(r'^(-?\d+) \[label="(.*?)"', line)
                if mn:
                    labels[mn.group(1)] = mn.group(2)
        finals = set()
        for node, lab in labels.items():
            if outdeg.get(node, 0) == 0:
                mh = _HIST_RE.search(lab.replace("\\n", " "))
                finals.add(_parse_hist(mh.group(1)))
        if len(labels) != distinct:
            raise HarnessError("TLC dump has %d nodes, TLC reported %d distinct states" % (len(labels), distinct))
        return finals, distinct, edges
    finally:
        shutil.rmtree(tmp, ignore_errors=True)


# ------------------------------------------------------------------ virtual pool
def _is_data(v):
    return not (callable(v) or isinstance(v, types.ModuleType) or isinstance(v, type))


class _Worker:
    def __init__(self, module, base):
        # fork semantics: a private copy of the module-level data globals
        self.ns = {}
        for k, v in base.items():
            if isinstance(v, np.ndarray) and v.base is None:
                v = v.copy()
            elif isinstance(v, (list, dict, set)):
                try:
                    v = copy.deepcopy(v)
                except Exception:  # noqa  (e.g. a container holding shared-memory blocks: shared across fork anyway)
                    v = copy.copy(v)
            self.ns[k] = v


class VirtualPool:
    def __init__(self, vmp, processes=None, initializer=None, initargs=(), maxtasksperchild=None, context=None):
        self.maxtasks = maxtasksperchild
        self.initializer = initializer
        self.vmp = vmp
        self.module = vmp.module
        self.W = processes if processes else vmp.cpu_count()
        vmp.log.append(("Pool", self.W))
        vmp.pools.append(self)
        self.initargs = initargs
        self.base_keys = set(self.module.__dict__.keys())
        base = {k: v for k, v in self.module.__dict__.items() if not k.startswith("__") and _is_data(v)}
        self.parent_ns = dict(base)
        self.workers = [_Worker(self.module, base) for _ in range(self.W)]
        self.closed = False
        if initializer is not None:
            for w in self.workers:
                self._in_worker(w, initializer, initargs)

    # -- run fn(*args) with the module globals of worker w
    def _in_worker(self, w, fn, args):
        md = self.module.__dict__
        parent = {k: v for k, v in md.items() if not k.startswith("__") and _is_data(v)}
        for k in list(parent):
            if k not in w.ns:
                del md[k]
        md.update(w.ns)
        try:
            return fn(*args)
        finally:
            w.ns = {k: v for k, v in md.items() if not k.startswith("__") and _is_data(v)}
            for k in list(w.ns):
                if k not in parent:
                    del md[k]
            md.update(parent)

    def __enter__(self):
        return self

    def __exit__(self, *a):
        self.closed = True
        return False

    def imap_unordered(self, func, iterable, chunksize=1):
        tasks = list(iterable)
        LF = len(tasks)
        vmp = self.vmp
        vmp.log.append(("imap_unordered", func.__name__, LF))
        if vmp.task_hook is not None:
            # footprint mode: the hook drives the tasks itself
            vmp.task_hook(self, func, tasks)
            return iter([None] * LF)
        sched = vmp.schedule
        if callable(sched):  # canonical schedule for whatever number of tasks the implementation submits
            sched = tuple(sched(LF, self.W))
        if sched is None:
            sched = tuple((1 + (i % self.W), i + 1) for i in range(LF))
        if sorted(t for _, t in sched) != list(range(1, LF + 1)):
            raise HarnessError("schedule %s does not cover tasks 1..%d" % (sched, LF))
        if any(w > self.W for w, _ in sched):
            raise HarnessError("schedule %s uses more than %d workers" % (sched, self.W))
        out = []
        done = [0] * self.W
        for w, t in sched:
            out.append(self._in_worker(self.workers[w - 1], func, (tasks[t - 1],)))
            done[w - 1] += 1
            if self.maxtasks and done[w - 1] >= self.maxtasks:
                # multiprocessing replaces a worker after `maxtasksperchild` tasks: a new process is forked
                # from the parent (its current module state) and runs the initializer again
                base = {k: v for k, v in self.module.__dict__.items() if not k.startswith("__") and _is_data(v)}
                self.workers[w - 1] = _Worker(self.module, base)
                if self.initializer is not None:
                    self._in_worker(self.workers[w - 1], self.initializer, self.initargs)
                done[w - 1] = 0
        vmp.executed = tuple(sched)
        return iter(out)

    def close(self):
        self.closed = True

    def join(self):
        pass

    def terminate(self):
        self.closed = True


class VirtualMP:
    """stand-in for the `multiprocessing` module inside pyyeti.srs / pyyeti.fdepsd"""

    def __init__(self, module, ncpu=4):
        self.module = module
        self.ncpu = ncpu
        self.schedule = None
        self.task_hook = None
        self.log = []
        self.pools = []
        self.executed = None
        self.RawArray = real_mp.RawArray
        self.Array = real_mp.Array

    def cpu_count(self):
        return self.ncpu

    def Pool(self, processes=None, initializer=None, initargs=(), maxtasksperchild=None, context=None):
        return VirtualPool(self, processes, initializer, initargs, maxtasksperchild, context)

    def reset(self):
        self.log = []
        self.pools = []
        self.executed = None


class patched:
    """context manager: module.mp = VirtualMP(module)"""

    def __init__(self, module, ncpu=4):
        self.module = module
        self.vmp = VirtualMP(module, ncpu)

    def __enter__(self):
        self.old = self.module.mp
        self.module.mp = self.vmp
        return self.vmp

    def __exit__(self, *a):
        self.module.mp = self.old
        return False


def shared_views(initargs):
    """numpy views of every (RawArray, shape) pair in a pool's initargs (None entries skipped)"""
    out = []
    for item in initargs:
        if isinstance(item, tuple) and len(item) == 2 and item[0] is not None:
            out.append(np.frombuffer(item[0]).reshape(item[1]))
        else:
            out.append(None)
    return out
