"""Line-reach map: which statements of a property's anchor files a check executes.
usage: /venv/bin/python -m vf.reach CNN [quick|thorough]   (writes /verif/reach/CNN.txt)
Non-vacuity aid only; never part of a registered command."""
import ast
import json
import os
import shutil
import subprocess
import sys
import tempfile

from vf.core import REPO, VERIF


def funcs_of(path):
    tree = ast.parse(open(path).read())
    out = []
    for node in ast.walk(tree):
        if isinstance(node, (ast.FunctionDef, ast.AsyncFunctionDef)):
            out.append((node.lineno, node.end_lineno, node.name))
    return sorted(out)


def main():
    prop = sys.argv[1].upper()
    tier = sys.argv[2] if len(sys.argv) > 2 else "quick"
    props = {json.loads(l)["id"]: json.loads(l) for l in open(os.path.join(VERIF, "properties.jsonl"))}
    files = props[prop]["anchors"]["files"]
    d = tempfile.mkdtemp(prefix="vf_cov_")
    env = dict(os.environ, VERIF_COVERAGE=d)
    p = subprocess.run([sys.executable, "-m", "vf.run", prop, "--tier", tier, "--no-confirm"], cwd=VERIF, env=env, capture_output=True, text=True)
    tail = [l for l in p.stdout.splitlines() if l.startswith(prop)]
    import coverage

    cov = coverage.Coverage(data_file=os.path.join(d, "cov"))
    cov.combine([d])
    lines = ["reach map for %s (%s tier): %s" % (prop, tier, tail[-1][:200] if tail else p.stdout[-300:])]
    for f in files:
        path = os.path.join(REPO, f)
        if not os.path.exists(path):
            continue
        try:
            _, stmts, excl, missing, _ = cov.analysis2(path)
        except Exception as e:  # noqa
            lines.append("%s: no data (%s)" % (f, e))
            continue
        miss = set(missing)
        lines.append("\n%s: %d statements, %d not executed" % (f, len(stmts), len(miss)))
        for lo, hi, name in funcs_of(path):
            body = [s for s in stmts if lo < s <= hi]
            if not body:
                continue
            m = [s for s in body if s in miss]
            if len(m) == len(body):
                lines.append("   %-40s lines %5d-%5d  NOT ENTERED" % (name, lo, hi))
            elif m:
                rng = []
                for x in m:
                    if rng and x <= rng[-1][1] + 2:
                        rng[-1][1] = x
                    else:
                        rng.append([x, x])
                lines.append("   %-40s lines %5d-%5d  missed %d/%d: %s" % (name, lo, hi, len(m), len(body), ", ".join("%d" % a if a == b else "%d-%d" % (a, b) for a, b in rng)))
    shutil.rmtree(d, ignore_errors=True)
    os.makedirs(os.path.join(VERIF, "reach"), exist_ok=True)
    out = os.path.join(VERIF, "reach", prop + ".txt")
    open(out, "w").write("\n".join(lines) + "\n")
    print("\n".join(lines))


if __name__ == "__main__":
    main()
