"""print a python file without docstrings/comments/blank lines (reading aid)"""
import ast, sys
src = open(sys.argv[1]).read()
tree = ast.parse(src)
for node in ast.walk(tree):
    if isinstance(node, (ast.FunctionDef, ast.ClassDef, ast.Module, ast.AsyncFunctionDef)):
        if node.body and isinstance(node.body[0], ast.Expr) and isinstance(getattr(node.body[0], 'value', None), ast.Constant) and isinstance(node.body[0].value.value, str):
            node.body = node.body[1:] or [ast.Pass()]
print(ast.unparse(tree))
