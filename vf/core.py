"""vf core: result accumulation, sharded exhaustive runner, evidence, replays,
known-findings lookup.  Run with /venv/bin/python (imports pyyeti from /repo)."""
import os
import sys

for _v in ("OMP_NUM_THREADS", "OPENBLAS_NUM_THREADS", "MKL_NUM_THREADS"):
    os.environ.setdefault(_v, "1")
os.environ.setdefault("PYTHONHASHSEED", "0")
os.environ.setdefault("MPLBACKEND", "Agg")

import collections
import hashlib
import importlib
import json
import multiprocessing as mp
import subprocess
import time
import traceback
import warnings

VERIF = os.path.dirname(os.path.dirname(os.path.abspath(__file__)))
DEPS = os.path.join(VERIF, ".deps")
if DEPS not in sys.path:
    sys.path.append(DEPS)
REPO = os.environ.get("VERIF_REPO", "/repo")
if REPO not in sys.path:
    sys.path.insert(0, REPO)

EVIDENCE_SCHEMA = "/root/.vp/EVIDENCE.schema.json"
NPROC = int(os.environ.get("VERIF_NPROC", "16"))
MAX_VIOL_KEEP = 400
MAX_SAMPLES = 6


class HarnessError(Exception):
    pass


def jdefault(o):
    import numpy as np

    if isinstance(o, np.ndarray):
        if np.iscomplexobj(o):
            return {"__complex__": [o.real.tolist(), o.imag.tolist()]}
        return o.tolist()
    if isinstance(o, (np.integer,)):
        return int(o)
    if isinstance(o, (np.floating,)):
        return float(o)
    if isinstance(o, (np.bool_,)):
        return bool(o)
    if isinstance(o, complex):
        return {"__complex__": [o.real, o.imag]}
    if isinstance(o, (set, frozenset)):
        return sorted(o)
    if isinstance(o, bytes):
        return o.hex()
    return repr(o)


def jdumps(o, **kw):
    return json.dumps(o, default=jdefault, sort_keys=True, **kw)


def jsame(a, b):
    """equality after a JSON round trip (replay files turn tuples into lists)"""
    return jdumps(a) == jdumps(b)


def case_key(case):
    return hashlib.sha1(jdumps(case).encode()).hexdigest()[:16]


class Result:
    """Accumulator returned by every shard and merged by the runner."""

    def __init__(self):
        self.evaluations = 0
        self.sigs = collections.Counter()
        self.outcomes = set()
        self.viols = []  # dicts {case, msg}
        self.nviol = 0
        self.kinds = collections.Counter()
        self.kept = collections.Counter()
        self.exits = collections.Counter()
        self.samples = []
        self.states = 0
        self.transitions = 0
        self.traces = 0
        self.counters = collections.Counter()
        self.notes = []
        self.maxerr = {}  # name -> (value, case)

    def ev(self, sig=None, outcome=None, n=1):
        self.evaluations += n
        if sig is not None:
            self.sigs[sig] += n
        if outcome is not None and len(self.outcomes) < 200000:
            if not isinstance(outcome, (str, int)):
                outcome = hashlib.sha1(repr(outcome).encode()).hexdigest()[:12]
            self.outcomes.add(outcome)

    def viol(self, case, msg, kind="v"):
        """record a violation; at most 40 are kept per `kind` so that one
        (possibly known) family cannot crowd out a different violation"""
        self.nviol += 1
        self.kinds[kind] += 1
        if self.kinds[kind] <= 40:
            self.viols.append({"case": case, "msg": str(msg)[:2000], "kind": kind})

    def exit(self, kind, n=1):
        self.exits[kind] += n

    def sample(self, case):
        if len(self.samples) < MAX_SAMPLES:
            self.samples.append(case)

    def err(self, name, value, case=None):
        """track the worst observed error for calibration reporting"""
        value = float(value)
        cur = self.maxerr.get(name)
        if cur is None or value > cur[0]:
            self.maxerr[name] = (value, case)

    def merge(self, o):
        self.evaluations += o.evaluations
        self.sigs.update(o.sigs)
        if len(self.outcomes) < 200000:
            self.outcomes |= o.outcomes
        for v in o.viols:
            k = v.get("kind", "v")
            self.kept[k] += 1
            if self.kept[k] <= 40:
                self.viols.append(v)
        self.nviol += o.nviol
        self.kinds.update(o.kinds)
        self.exits.update(o.exits)
        for s in o.samples:
            self.sample(s)
        self.states += o.states
        self.transitions += o.transitions
        self.traces += o.traces
        self.counters.update(o.counters)
        self.notes.extend(o.notes)
        for k, v in o.maxerr.items():
            self.err(k, v[0], v[1])
        return self


# ---------------------------------------------------------------- sharding
def chunks(seq, n):
    """split a list into n nearly equal contiguous chunks (drops empties)"""
    seq = list(seq)
    n = max(1, min(n, len(seq)))
    k, m = divmod(len(seq), n)
    out, i = [], 0
    for j in range(n):
        sz = k + (1 if j < m else 0)
        out.append(seq[i : i + sz])
        i += sz
    return [c for c in out if c]


def strided(seq, n):
    seq = list(seq)
    n = max(1, min(n, len(seq)))
    return [seq[i::n] for i in range(n)]


_MOD = None
_PROGRESS = None  # file object in isolation mode
_NO_ISOLATE = False  # set in the sacrificial process that re-runs a crashing shard with progress tracking


def progress(case):
    """checks call this before evaluating a case that may crash or hang the
    process (C extension, pools); only active when a shard is re-run in
    isolation to find the case that killed a worker"""
    if _PROGRESS is not None:
        _PROGRESS.seek(0)
        _PROGRESS.truncate()
        _PROGRESS.write(jdumps(case))
        _PROGRESS.flush()


def _run_one(args):
    idx, shard = args
    warnings.simplefilter("ignore")
    import numpy as np

    np.seterr(all="ignore")
    if getattr(_MOD, "ISOLATE_SHARDS", True) and not os.environ.get("VERIF_COVERAGE") and not _NO_ISOLATE:
        out = _run_one_isolated(idx, shard)
    else:
        try:
            r = _MOD.run_shard(shard)
            if not isinstance(r, Result):
                raise HarnessError("run_shard did not return a Result")
            out = (idx, r, None)
        except Exception as e:
            lr = _library_exception(e, shard)
            out = (idx, lr, None) if lr is not None else (idx, None, traceback.format_exc())
    if out[1] is not None:
        for v in out[1].viols:
            v.setdefault("shard", shard)  # the history that reached the violation (for history-faithful replay)
    return out


_TIER = "quick"


def _shard_timeout(mod):
    """deadline per shard: the check's own (or 900 s), four times that for the thorough tier; generous on purpose - a
    deadline is for code that no longer terminates, not for a loaded machine"""
    return getattr(mod, "SHARD_TIMEOUT", 900) * (4 if _TIER == "thorough" else 1)


def _library_exception(exc, shard):
    """an exception that escapes run_shard from inside the code under test (innermost frame in the repository) is the
    library failing on an input of the alphabet, not a harness fault: it becomes a violation whose replay is the shard"""
    tb = exc.__traceback__
    last = None
    repo = os.path.realpath(REPO) + os.sep
    harness = os.path.realpath(VERIF) + os.sep
    while tb is not None:
        # the innermost frame that belongs to the code under test, provided no harness frame follows it (the library may
        # have failed inside a third-party routine it called: scipy, numpy, pandas)
        fn_ = os.path.realpath(tb.tb_frame.f_code.co_filename)
        if fn_.startswith(repo):
            last = tb
        elif fn_.startswith(harness):
            last = None
        tb = tb.tb_next
    if last is None or isinstance(exc, HarnessError):
        return None
    fn = os.path.realpath(last.tb_frame.f_code.co_filename)
    r = Result()
    r.viol({"crashed_shard": shard}, "the library raised %r at %s:%d (%s) on an input of this shard's alphabet"
           % (exc, os.path.relpath(fn, os.path.realpath(REPO)), last.tb_lineno, last.tb_frame.f_code.co_name), kind="raise-" + type(exc).__name__)
    return r


def _run_one_isolated(idx, shard):
    """K2 histories over module-level state: every shard is a complete history and runs in a child forked
    from a worker that never executes library code itself, so that it starts from the import-time state
    (caches, module globals) - exactly the state a fresh replay process starts from"""
    ctx = mp.get_context("fork")
    parent, child = ctx.Pipe(duplex=False)

    def target():
        try:
            r = _MOD.run_shard(shard)
            if not isinstance(r, Result):
                raise HarnessError("run_shard did not return a Result")
            child.send((idx, r, None))
        except Exception as e:
            lr = _library_exception(e, shard)
            child.send((idx, lr, None) if lr is not None else (idx, None, traceback.format_exc()))
        finally:
            child.close()

    p = ctx.Process(target=target)
    p.start()
    child.close()
    timeout = _shard_timeout(_MOD)
    try:
        if parent.poll(timeout):
            out = parent.recv()
        else:
            # the shard hangs (e.g. a loop that no longer terminates): stop it here - killing only this worker
            # would leave the child running - and let the runner name the case
            p.kill()
            out = (idx, None, "isolated shard process died (hung > %d s, killed)" % timeout)
    except EOFError:
        out = (idx, None, "isolated shard process died (exit code %s)" % p.exitcode)
    p.join()
    return out


def _cov_start():
    """line-reach map of the code under test (only when VERIF_COVERAGE names a data directory)"""
    d = os.environ.get("VERIF_COVERAGE")
    if not d:
        return None
    import coverage

    os.makedirs(d, exist_ok=True)
    cov = coverage.Coverage(data_file=os.path.join(d, "cov"), data_suffix=True, include=[os.path.join(REPO, "pyyeti", "*")])
    cov.start()
    return cov


def _cov_stop(cov):
    if cov is not None:
        cov.stop()
        cov.save()


def _worker(conn):
    import signal

    signal.signal(signal.SIGINT, signal.SIG_IGN)
    cov = _cov_start()
    try:
        while True:
            try:
                item = conn.recv()
            except EOFError:
                return
            if item is None:
                return
            conn.send(_run_one(item))
    finally:
        _cov_stop(cov)


def _isolate(mod, idx, shard, timeout):
    """re-run one shard alone with progress tracking; returns a Result that
    contains a violation naming the case during which the process died/hung"""
    global _PROGRESS
    import tempfile

    ctx = mp.get_context("fork")
    fd, path = tempfile.mkstemp(prefix="vf_progress_")
    os.close(fd)
    parent, child = ctx.Pipe()

    def target():
        global _PROGRESS, _NO_ISOLATE
        _PROGRESS = open(path, "w")
        _NO_ISOLATE = True
        child.send(_run_one((idx, shard)))

    p = ctx.Process(target=target)
    p.start()
    child.close()  # (the parent's copy: without this a dying child gives no EOF and the poll waits out the full timeout)
    out = None
    if parent.poll(timeout):
        try:
            out = parent.recv()
        except EOFError:
            out = None
    if out is None:
        how = "hung (> %ds)" % timeout if p.is_alive() else "died (exit code %s)" % p.exitcode
        if p.is_alive():
            p.kill()
        p.join()
        try:
            with open(path) as f:
                txt = f.read()
            case = json.loads(txt) if txt else None
        except Exception:
            case = None
        os.unlink(path)
        r = Result()
        if case is None:
            # no progress() record in this part of the check: the shard itself (a complete history from the
            # import-time state) is the replayable artefact
            r.viol({"crashed_shard": shard}, "worker process %s while running this shard" % how, kind="crash")
            return r
        r.viol(case, "worker process %s while evaluating this case" % how, kind="crash")
        return r
    p.join()
    os.unlink(path)
    idx, r, tb = out
    if tb:
        raise HarnessError("shard %d crashed:\n%s" % (idx, tb))
    return r


def run_shards(mod, shards, nproc=NPROC):
    """Run every shard (exhaustively - no sampling) over forked workers.  A
    worker that dies (segfault in a mutated C extension) or exceeds the shard
    deadline is detected; its shard is re-run in isolation to name the case."""
    from multiprocessing.connection import wait

    global _MOD
    _MOD = mod
    total = Result()
    if not shards:
        raise HarnessError("no shards")
    timeout = _shard_timeout(mod)
    nproc = max(1, min(nproc, len(shards)))
    items = list(enumerate(shards))
    if getattr(mod, "SERIAL", False):
        for idx, r, tb in map(_run_one, items):
            if tb:
                raise HarnessError("shard %d crashed:\n%s" % (idx, tb))
            total.merge(r)
        return total
    ctx = mp.get_context("fork")
    workers = {}  # conn -> [proc, current item, start time]

    def spawn():
        a, b = ctx.Pipe()
        p = ctx.Process(target=_worker, args=(b,), daemon=False)  # checks may start pools of their own
        p.start()
        b.close()
        workers[a] = [p, None, 0.0]
        return a

    pending = list(reversed(items))
    bad = []
    for _ in range(nproc):
        spawn()
    try:
        done = 0
        while done < len(items):
            for c, w in list(workers.items()):
                if w[1] is None and pending:
                    w[1] = pending.pop()
                    w[2] = time.time()
                    c.send(w[1])
            busy = [c for c, w in workers.items() if w[1] is not None]
            if not busy:
                break
            ready = wait(busy, timeout=5.0)
            for c in ready:
                w = workers[c]
                try:
                    idx, r, tb = c.recv()
                except (EOFError, ConnectionResetError, OSError):
                    bad.append(w[1])
                    done += 1
                    w[0].join(1)
                    del workers[c]
                    spawn()
                    continue
                if tb and tb.startswith("isolated shard process died"):
                    bad.append(w[1])  # the shard killed its process (e.g. a crashing C extension): name the case below
                    done += 1
                    w[1] = None
                    continue
                if tb:
                    raise HarnessError("shard %d crashed:\n%s" % (idx, tb))
                total.merge(r)
                done += 1
                w[1] = None
            now = time.time()
            for c, w in list(workers.items()):
                if w[1] is not None and now - w[2] > timeout + 60:  # (isolated shards time out by themselves first)
                    bad.append(w[1])
                    done += 1
                    w[0].kill()
                    w[0].join(1)
                    del workers[c]
                    spawn()
    finally:
        for c, w in workers.items():
            try:
                if w[1] is None:
                    c.send(None)
                else:
                    w[0].kill()
            except Exception:
                pass
        for c, w in workers.items():
            w[0].join(2)
            if w[0].is_alive():
                w[0].kill()
    for idx, shard in bad[:6]:
        total.merge(_isolate(mod, idx, shard, timeout))
    if len(bad) > 6:
        total.notes.append("%d further shards killed their worker; only 6 isolated" % (len(bad) - 6))
    return total


def fresh_eval(fn, *args):
    """evaluate fn(*args) in a forked child and return its (picklable) result: the child starts from the
    caller's current module state, so calling this before a history gives 'the same call made first'"""
    ctx = mp.get_context("fork")
    parent, child = ctx.Pipe(duplex=False)

    def target():
        try:
            child.send(("ok", fn(*args)))
        except Exception:
            child.send(("err", traceback.format_exc()))
        finally:
            child.close()

    p = ctx.Process(target=target)
    p.start()
    child.close()
    try:
        kind, val = parent.recv()
    except EOFError:
        kind, val = "err", "child died (exit code %s)" % p.exitcode
    p.join()
    if kind == "err":
        raise HarnessError("fresh_eval failed:\n" + val)
    return val


# ---------------------------------------------------------------- findings
def load_findings(prop):
    path = os.path.join(VERIF, "known_findings.json")
    if not os.path.exists(path):
        return []
    with open(path) as f:
        data = json.load(f)
    return [
        e
        for e in data.get("findings", [])
        if e.get("property") == prop and e.get("status") == "open"
    ]


def classify(mod, prop, viols):
    """split violations into (known {id: [viols]}, unlisted [viols])"""
    listed = load_findings(prop)
    matchers = getattr(mod, "FINDING_MATCHERS", {})
    known = collections.OrderedDict()
    unlisted = []
    for v in viols:
        hit = None
        for e in listed:
            fn = matchers.get(e["id"])
            if fn is None:
                continue
            try:
                if fn(v["case"], v["msg"]):
                    hit = e
                    break
            except Exception:
                continue
        if hit is None:
            unlisted.append(v)
        else:
            known.setdefault(hit["id"], (hit, []))[1].append(v)
    return known, unlisted


# ---------------------------------------------------------------- evidence
def write_evidence(prop, tier, seed, level, coverage, assumptions, wall, nviol):
    ev = {
        "property_id": prop,
        "tier": tier,
        "seed": int(seed),
        "level": level,
        "coverage": coverage,
        "assumptions": assumptions,
        "wall_s": round(float(wall), 3),
        "violations": int(nviol),
    }
    text = jdumps(ev, indent=1)
    ev = json.loads(text)
    try:
        import jsonschema

        with open(EVIDENCE_SCHEMA) as f:
            schema = json.load(f)
        jsonschema.validate(ev, schema)
    except ImportError:
        pass
    except FileNotFoundError:
        pass
    outdir = os.environ.get("VERIF_OUT") or VERIF  # VERIF_OUT: scratch output root for runs against modified trees
    os.makedirs(os.path.join(outdir, "evidence"), exist_ok=True)
    path = os.path.join(outdir, "evidence", prop + ".json")
    tmp = path + ".tmp%d" % os.getpid()
    with open(tmp, "w") as f:
        f.write(text + "\n")
    os.replace(tmp, path)
    return path


def write_replay(prop, v):
    d = os.path.join(os.environ.get("VERIF_OUT") or VERIF, "replays", prop)
    os.makedirs(d, exist_ok=True)
    path = os.path.join(d, case_key(v["case"]) + ".json")
    body = {
        "property": prop,
        "case": v["case"],
        "shard": v.get("shard"),
        "msg": v["msg"],
        "replay": "cd /verif && /venv/bin/python -m vf.run %s --replay %s" % (prop, path),
    }
    with open(path, "w") as f:
        f.write(jdumps(body, indent=1) + "\n")
    return path


def confirm_replay(prop, path):
    """re-run one violation in a fresh process; returns True if it reproduces"""
    try:
        p = subprocess.run(
            [sys.executable, "-m", "vf.run", prop, "--replay", path],
            cwd=VERIF,
            capture_output=True,
            text=True,
            timeout=600,
        )
    except subprocess.TimeoutExpired:
        return True, "replay hung (>600 s)"
    return (p.returncode == 1 or p.returncode < 0 or p.returncode > 128), p.stdout[-2000:] + p.stderr[-2000:]


def main(argv=None):
    import argparse

    ap = argparse.ArgumentParser()
    ap.add_argument("prop")
    ap.add_argument("--tier", default=os.environ.get("VERIF_TIER") or "quick")
    ap.add_argument("--replay")
    ap.add_argument("--no-confirm", action="store_true")
    a = ap.parse_args(argv)
    prop = a.prop.upper()
    tier = a.tier if a.tier in ("quick", "thorough") else "quick"
    global _TIER
    _TIER = tier
    try:
        seed = int(os.environ.get("VERIF_SEED", "0") or 0)
    except ValueError:
        seed = 0
    mod = importlib.import_module("vf.checks." + prop.lower())
    warnings.simplefilter("ignore")

    global _MOD
    if a.replay:
        with open(a.replay) as f:
            body = json.load(f)
        if hasattr(mod, "setup"):
            mod.setup("replay", seed)
        try:
            if isinstance(body["case"], dict) and "crashed_shard" in body["case"]:
                _MOD = mod
                try:
                    r = mod.run_shard(body["case"]["crashed_shard"])  # dies again if the crash is still there
                    msgs = [v["msg"] for v in r.viols]
                except Exception as e:
                    lr = _library_exception(e, body["case"]["crashed_shard"])
                    if lr is None:
                        raise
                    msgs = [v["msg"] for v in lr.viols]
            else:
                msgs = mod.replay(body["case"])
            if not msgs and "crashed_shard" not in (body["case"] if isinstance(body["case"], dict) else {}) and body.get("shard") is not None:
                # the case alone passes: replay the whole shard (the call history that preceded the case in the
                # original run; shards start from the import-time module state, exactly like this fresh process)
                _MOD = mod
                r = mod.run_shard(body["shard"])
                key = case_key(body["case"])
                msgs = [v["msg"] for v in r.viols if case_key(v["case"]) == key]
                if msgs:
                    print("replay: the case passes alone; it fails after the preceding calls of its shard (history-dependent)")
        finally:
            if hasattr(mod, "teardown"):
                mod.teardown()
        if msgs:
            for m in msgs if isinstance(msgs, (list, tuple)) else [msgs]:
                print("replay: " + str(m)[:1500])
            print("VIOLATION property=%s replay=%s" % (prop, a.replay))
            return 1
        print("replay: case passes")
        return 0

    t0 = time.time()
    try:
        if hasattr(mod, "setup"):
            mod.setup(tier, seed)
        shards = mod.shards(tier, seed)
        res = run_shards(mod, shards)
        if hasattr(mod, "finish"):
            mod.finish(res, tier, seed)
        req = set(mod.required_sigs(tier)) if hasattr(mod, "required_sigs") else set()
        missing = sorted(s for s in req if s not in res.sigs)
        if missing and not classify(mod, prop, res.viols)[1]:
            # (when the run also found unlisted violations those are reported: a changed library can make a signature
            # unreachable precisely because it misbehaves)
            raise HarnessError("alphabet no longer reaches signatures: %s" % missing[:20])
        if missing:
            res.notes.append("signatures not reached in this run: %s" % missing[:20])
    except HarnessError as e:
        print("HARNESS-ERROR property=%s %s" % (prop, e))
        return 3
    except Exception:
        print("HARNESS-ERROR property=%s\n%s" % (prop, traceback.format_exc()))
        return 3
    finally:
        if hasattr(mod, "teardown"):
            try:
                mod.teardown()
            except Exception:
                pass

    known, unlisted = classify(mod, prop, res.viols)
    rc = 0
    for fid, (entry, vs) in known.items():
        print(
            "KNOWN-FINDING: property=%s %s [%s; %d case(s) this run, e.g. %s]"
            % (prop, entry["text"], fid, len(vs), jdumps(vs[0]["case"])[:300])
        )
    reported = []
    seen = set()
    for v in unlisted:
        k = case_key(v["case"])
        if k in seen:
            continue
        seen.add(k)
        if len(reported) >= 8:
            break
        path = write_replay(prop, v)
        if not a.no_confirm and len(reported) < 2:
            ok, out = confirm_replay(prop, path)
            if not ok:
                print(
                    "HARNESS-ERROR property=%s violation did not reproduce on replay (%s): %s\n%s"
                    % (prop, path, v["msg"][:500], out)
                )
                return 3
        reported.append((path, v))
    for path, v in reported:
        print("violation: %s" % v["msg"][:700])
        print("VIOLATION property=%s replay=%s" % (prop, path))
        rc = 1

    wall = time.time() - t0
    nontrivial = [s for s in res.sigs if not str(s).startswith("trivial")]
    cov = {
        "evaluations": res.evaluations,
        "distinct_nontrivial": len(nontrivial),
        "rule": getattr(mod, "RULE", ""),
        "samples": res.samples[:MAX_SAMPLES] or [{"note": "no sample recorded"}],
        "exhaustive": bool(getattr(mod, "EXHAUSTIVE", True)),
        "shards": len(shards),
        "distinct_outcomes": len(res.outcomes),
        "domain_exits": dict(res.exits),
        "signature_histogram_top": dict(res.sigs.most_common(40)),
        "counters": dict(res.counters),
        "violations_total": res.nviol,
        "violations_unlisted": len(unlisted),
        "known_findings_hit": {k: len(v[1]) for k, v in known.items()},
        "worst_observed_errors": {k: v[0] for k, v in res.maxerr.items()},
        "bounds": mod.bounds(tier) if hasattr(mod, "bounds") else "",
        "notes": res.notes[:20],
    }
    if res.states or res.transitions:
        cov["states"] = res.states
        cov["transitions"] = res.transitions
        cov["traces_validated_against_impl"] = res.traces
    write_evidence(
        prop,
        tier,
        seed,
        getattr(mod, "LEVEL", "model_checking"),
        cov,
        list(getattr(mod, "ASSUMPTIONS", [])),
        wall,
        len(unlisted),
    )
    print(
        "%s tier=%s seed=%d evaluations=%d distinct_sigs=%d outcomes=%d states=%d transitions=%d "
        "exits=%s violations=%d known=%d wall=%.1fs"
        % (
            prop,
            tier,
            seed,
            res.evaluations,
            len(nontrivial),
            len(res.outcomes),
            res.states,
            res.transitions,
            dict(res.exits),
            len(unlisted),
            sum(len(v[1]) for v in known.values()),
            wall,
        )
    )
    if res.maxerr:
        print("worst errors: " + ", ".join("%s=%.3g" % (k, v[0]) for k, v in sorted(res.maxerr.items())))
    return rc
