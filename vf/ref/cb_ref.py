"""Independent structural reference pieces (R2): spring-mass networks, direct
frequency-domain solves, physical coupling by constraint elimination, and a
Craig-Bampton reduction written from the textbook definition.  Shares no code
with pyYeti."""
import numpy as np
import scipy.linalg as la


def network(masses, springs, dashpots=()):
    """1-D network: masses m_i, springs (i, j, k) (j = -1: to ground), dashpots (i, j, c)"""
    n = len(masses)
    M = np.diag(np.asarray(masses, float))
    K = np.zeros((n, n))
    B = np.zeros((n, n))
    for mat, items in ((K, springs), (B, dashpots)):
        for i, j, v in items:
            mat[i, i] += v
            if j >= 0:
                mat[j, j] += v
                mat[i, j] -= v
                mat[j, i] -= v
    return M, B, K


def dyn(M, B, K, w):
    return -w * w * M + 1j * w * B + K


def cb_reduce(M, B, K, bset, nmodes=None, order=None):
    """Craig-Bampton reduction with boundary DOF `bset` (list, in the order given).
    Returns Mcb, Bcb, Kcb, T, bpos where the CB DOF are arranged by `order`
    (a permutation of range(nb+nq) giving, for each position, which of
    [b..., q...] sits there; default: b first) and bpos = positions of the b DOF."""
    n = M.shape[0]
    b = list(bset)
    i = [d for d in range(n) if d not in b]
    Kii = K[np.ix_(i, i)]
    Kib = K[np.ix_(i, b)]
    Mii = M[np.ix_(i, i)]
    psi = -la.solve(Kii, Kib)
    if len(i):
        lam, phi = la.eigh(Kii, Mii)
        if nmodes is not None:
            phi = phi[:, :nmodes]
    else:
        phi = np.zeros((0, 0))
    nb, nq = len(b), phi.shape[1]
    T = np.zeros((n, nb + nq))
    T[b, :nb] = np.eye(nb)
    T[np.ix_(i, range(nb))] = psi
    T[np.ix_(i, range(nb, nb + nq))] = phi
    if order is None:
        order = list(range(nb + nq))
    T = T[:, order]
    bpos = [order.index(j) for j in range(nb)]
    Mcb = T.T @ M @ T
    Bcb = T.T @ B @ T
    Kcb = T.T @ K @ T
    Kcb = (Kcb + Kcb.T) / 2
    Mcb = (Mcb + Mcb.T) / 2
    return Mcb, Bcb, Kcb, T, bpos


def couple(src, load, bs, bl):
    """physically couple load to source: load DOF bl[j] is the same point as source DOF bs[j].
    Global DOF = source DOF followed by load interior DOF.  Returns (M, B, K, load_map)
    where load_map[d] = global index of load DOF d."""
    Ms, Bs, Ks = src
    Ml, Bl, Kl = load
    ns, nl = Ms.shape[0], Ml.shape[0]
    inter = [d for d in range(nl) if d not in bl]
    lmap = np.zeros(nl, int)
    for j, d in enumerate(bl):
        lmap[d] = bs[j]
    for j, d in enumerate(inter):
        lmap[d] = ns + j
    N = ns + len(inter)
    out = []
    for S, L in ((Ms, Ml), (Bs, Bl), (Ks, Kl)):
        G = np.zeros((N, N), dtype=np.result_type(S, L))
        G[:ns, :ns] += S
        G[np.ix_(lmap, lmap)] += L
        out.append(G)
    return out[0], out[1], out[2], lmap


# ------------------------------------------------------------------ free 3-D structures (6 DOF per node)
def skew(r):
    return np.array([[0.0, -r[2], r[1]], [r[2], 0.0, -r[0]], [-r[1], r[0], 0.0]])


def rigid_map(x, ref):
    """6x6 map from rigid motion (u_ref, theta) about `ref` to the motion of a point at x (basic axes)"""
    G = np.eye(6)
    G[:3, 3:] = -skew(np.asarray(x, float) - np.asarray(ref, float))
    return G


def rot(axis, ang):
    axis = np.asarray(axis, float) / np.linalg.norm(axis)
    K = skew(axis)
    return np.eye(3) + np.sin(ang) * K + (1 - np.cos(ang)) * (K @ K)


TOPOLOGIES = {
    # name: (number of nodes, element list (a, b))
    "chain3": (3, [(0, 1), (1, 2)]),
    "tri3": (3, [(0, 1), (1, 2), (0, 2)]),
    "star4": (4, [(0, 1), (0, 2), (0, 3), (2, 3)]),
    "ring5": (5, [(0, 1), (1, 2), (2, 3), (3, 4), (4, 0), (1, 3)]),
}
COORDS = [
    np.array([[0.0, 0.0, 0.0], [1.2, 0.3, -0.4], [0.5, 1.7, 0.6], [-0.8, 0.9, 1.1], [1.5, -0.7, 0.9]]),
    np.array([[2.0, 1.0, 0.5], [0.3, -0.2, 0.1], [1.1, 2.2, -0.7], [-0.5, 0.4, 1.6], [2.4, 0.1, -1.2]]),
]


def structure(topology, geom):
    """returns xyz (n x 3), M, K (6n x 6n) in basic coordinates; free-free (6 rigid-body modes)"""
    n, elems = TOPOLOGIES[topology]
    xyz = COORDS[geom][:n]
    K = np.zeros((6 * n, 6 * n))
    M = np.zeros((6 * n, 6 * n))
    for e, (a, b) in enumerate(elems):
        c = 0.5 * (xyz[a] + xyz[b])
        R = rot([1.0 + e, 2.0 - e, 0.5 * e + 0.3], 0.4 + 0.37 * e)
        kd = np.array([2.0e5, 3.5e5, 1.5e5, 4.0e4, 2.5e4, 3.0e4]) * (1.0 + 0.3 * e)
        T6 = np.zeros((6, 6))
        T6[:3, :3] = R
        T6[3:, 3:] = R
        k6 = T6 @ np.diag(kd) @ T6.T
        Brel = np.zeros((6, 6 * n))
        Brel[:, 6 * a : 6 * a + 6] = -rigid_map(c, xyz[a])
        Brel[:, 6 * b : 6 * b + 6] = rigid_map(c, xyz[b])
        K += Brel.T @ k6 @ Brel
    for i in range(n):
        m = 2.0 + 1.3 * i
        R = rot([0.3 + i, 1.0, 2.0 - 0.4 * i], 0.5 + 0.2 * i)
        Icg = R @ np.diag([0.20 + 0.05 * i, 0.35, 0.15 + 0.1 * i]) @ R.T
        off = np.array([0.05 * (i + 1), -0.03 * i, 0.04 * (i % 2)])
        T = rigid_map(xyz[i] + off, xyz[i])
        Mi = T.T @ np.block([[m * np.eye(3), np.zeros((3, 3))], [np.zeros((3, 3)), Icg]]) @ T
        M[6 * i : 6 * i + 6, 6 * i : 6 * i + 6] = Mi
    K = (K + K.T) / 2
    M = (M + M.T) / 2
    return xyz, M, K


def rigid_modes(xyz, ref):
    return np.vstack([rigid_map(x, ref) for x in xyz])
