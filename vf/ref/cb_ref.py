"""Independent structural reference pieces (R2): spring-mass networks, direct
frequency-domain solves, physical coupling by constraint elimination, and a
Craig-Bampton reduction written from the textbook definition.  Shares no code
with pyYeti."""
import numpy as np
import scipy.linalg as la


def network(masses, springs, dashpots=()):
    """1-D network: masses m_i, springs (i, j, k) (j = -1: to ground), dashpots (i, j, c)"""
    n = len(masses)
    M = np.diag(np.asarray(masses, float))
    K = np.zeros((n, n))
    B = np.zeros((n, n))
    for mat, items in ((K, springs), (B, dashpots)):
        for i, j, v in items:
            mat[i, i] += v
            if j >= 0:
                mat[j, j] += v
                mat[i, j] -= v
                mat[j, i] -= v
    return M, B, K


def dyn(M, B, K, w):
    return -w * w * M + 1j * w * B + K


def cb_reduce(M, B, K, bset, nmodes=None, order=None):
    """Craig-Bampton reduction with boundary DOF `bset` (list, in the order given).
    Returns Mcb, Bcb, Kcb, T, bpos where the CB DOF are arranged by `order`
    (a permutation of range(nb+nq) giving, for each position, which of
    [b..., q...] sits there; default: b first) and bpos = positions of the b DOF."""
    n = M.shape[0]
    b = list(bset)
    i = [d for d in range(n) if d not in b]
    Kii = K[np.ix_(i, i)]
    Kib = K[np.ix_(i, b)]
    Mii = M[np.ix_(i, i)]
    psi = -la.solve(Kii, Kib)
    if len(i):
        lam, phi = la.eigh(Kii, Mii)
        if nmodes is not None:
            phi = phi[:, :nmodes]
    else:
        phi = np.zeros((0, 0))
    nb, nq = len(b), phi.shape[1]
    T = np.zeros((n, nb + nq))
    T[b, :nb] = np.eye(nb)
    T[np.ix_(i, range(nb))] = psi
    T[np.ix_(i, range(nb, nb + nq))] = phi
    if order is None:
        order = list(range(nb + nq))
    T = T[:, order]
    bpos = [order.index(j) for j in range(nb)]
    Mcb = T.T @ M @ T
    Bcb = T.T @ B @ T
    Kcb = T.T @ K @ T
    Kcb = (Kcb + Kcb.T) / 2
    Mcb = (Mcb + Mcb.T) / 2
    return Mcb, Bcb, Kcb, T, bpos


def couple(src, load, bs, bl):
    """physically couple load to source: load DOF bl[j] is the same point as source DOF bs[j].
    Global DOF = source DOF followed by load interior DOF.  Returns (M, B, K, load_map)
    where load_map[d] = global index of load DOF d."""
    Ms, Bs, Ks = src
    Ml, Bl, Kl = load
    ns, nl = Ms.shape[0], Ml.shape[0]
    inter = [d for d in range(nl) if d not in bl]
    lmap = np.zeros(nl, int)
    for j, d in enumerate(bl):
        lmap[d] = bs[j]
    for j, d in enumerate(inter):
        lmap[d] = ns + j
    N = ns + len(inter)
    out = []
    for S, L in ((Ms, Ml), (Bs, Bl), (Ks, Kl)):
        G = np.zeros((N, N), dtype=np.result_type(S, L))
        G[:ns, :ns] += S
        G[np.ix_(lmap, lmap)] += L
        out.append(G)
    return out[0], out[1], out[2], lmap
