"""ASTM E1049-85 section 5.4.4 rainflow counting, written from the standard's
six steps with a plain list as the stack of unmatched reversals.  Shares no code
with pyYeti.  Returns rows (amp, mean, count, start_offset, stop_offset)."""


def astm_rainflow(peaks, flags=None):
    """flags: optional set that receives the decision events met ('tie',
    'half5', 'full', 'lt') for regime signatures"""
    stack = []  # [value, offset] of reversals not yet matched
    rows = []
    for k, p in enumerate(peaks):
        stack.append((float(p), k))  # step 1: read next peak or valley
        while len(stack) >= 3:  # step 2: fewer than three points -> step 1
            (a, ia), (b, ib), (c, ic) = stack[-3], stack[-2], stack[-1]
            Y = abs(a - b)  # step 3: X is the range under consideration
            X = abs(b - c)
            if flags is not None:
                flags.add("tie" if X == Y else ("lt" if X < Y else "gt"))
            if X < Y:
                break
            if len(stack) == 3:
                # step 5: range Y contains the starting point S: half cycle,
                # discard the first point, S moves to the second point
                rows.append((Y / 2, (a + b) / 2, 0.5, ia, ib))
                stack.pop(0)
                if flags is not None:
                    flags.add("half5_tie" if X == Y else "half5")
            else:
                # step 4: count Y as one cycle, discard its peak and valley
                rows.append((Y / 2, (a + b) / 2, 1.0, ia, ib))
                del stack[-3:-1]
                if flags is not None:
                    flags.add("full_tie" if X == Y else "full")
    # step 6: every range that has not been counted is a half cycle
    for (a, ia), (b, ib) in zip(stack, stack[1:]):
        rows.append((abs(a - b) / 2, (a + b) / 2, 0.5, ia, ib))
    return rows
