"""Independent OUTPUT2 (op2) encoder for matrix and table data blocks, written
from record dumps of Nastran-written sample files.  Shares no code with
pyyeti.nastran.op2.  `selftest()` binds it to reality: the sample files are
taken apart into logical blocks by the tiny parser below and re-encoded; the
bytes must be identical.

Logical blocks:
  matrix: dict(kind='matrix', name, trailer(7 ints), cols=[[(irow0, values ndarray), ...], ...], name2_extra=(170,170))
  table : dict(kind='table', name, trailer(7 ints), records=[[bytes part, ...], ...])"""
import os
import struct

import numpy as np


class Writer:
    def __init__(self, endian="<", bit64=False):
        self.e = endian
        self.bit64 = bit64
        self.isz = 8 if bit64 else 4
        self.ic = "q" if bit64 else "i"
        self.out = bytearray()

    def rec(self, body):
        self.out.extend(struct.pack(self.e + "i", len(body)))
        self.out.extend(body)
        self.out.extend(struct.pack(self.e + "i", len(body)))

    def key(self, n):
        self.rec(struct.pack(self.e + self.ic, n))

    def ints(self, vals):
        return struct.pack(self.e + "%d%s" % (len(vals), self.ic), *vals)

    def chars(self, s, nwords):
        """text stored 4 characters per word (in 64-bit files each word is padded with 4 blanks)"""
        s = s.ljust(4 * nwords)[: 4 * nwords]
        if not self.bit64:
            return s.encode()
        return b"".join(s[i : i + 4].encode() + b"    " for i in range(0, 4 * nwords, 4))


def encode(blocks, endian="<", bit64=False, header=None, eof_keys=0):
    """returns (bytes, truth) where truth lists name, kind, start, stop (byte range) of every block"""
    w = Writer(endian, bit64)
    if header is not None:
        date, label = header
        w.key(3)
        w.rec(w.ints(date))
        w.key(7)
        w.rec(w.chars("NASTRAN FORT TAPE ID CODE - ", 7))
        w.key(2)
        w.rec(w.chars(label, 2))
        w.key(-1)
        w.key(0)
    truth = []
    for blk in blocks:
        start = len(w.out)
        ismat = blk["kind"] == "matrix"
        w.key(2)
        w.rec(w.chars(blk["name"], 2))
        w.key(-1)
        w.key(7)
        w.rec(w.ints(blk["trailer"]))
        w.key(-2)
        w.key(1)
        w.key(0)
        if "hdr_raw" in blk:  # header record of the data block taken verbatim (name + whatever Nastran appended)
            w.key(len(blk["hdr_raw"]) // w.isz)
            w.rec(blk["hdr_raw"])
        elif ismat:
            w.key(4)
            w.rec(w.chars(blk.get("name2", blk["name"]), 2) + w.ints(blk.get("name2_extra", (170, 170))))
        else:
            w.key(2)
            w.rec(w.chars(blk.get("name2", blk["name"]), 2))
        w.key(-3)
        w.key(1)
        w.key(1 if ismat else 0)
        if ismat:
            mtype = blk["trailer"][4]
            ncol = len(blk["cols"])
            single = bool(mtype & 1) and not bit64
            for j, strs in enumerate(blk["cols"]):
                for irow0, vals in strs:
                    v = np.asarray(vals)
                    if mtype > 2:
                        v = np.column_stack((v.real, v.imag)).ravel()
                    data = v.astype(endian + ("f4" if single else "f8")).tobytes()
                    w.key(len(data) // w.isz)  # the key counts the value words, not the row-number word
                    w.rec(w.ints([irow0 + 1]) + data)
                w.key(-(4 + j))
                w.key(1)
                w.key(1 if j < ncol - 1 else 0)
            w.key(0)
        else:
            for r, parts in enumerate(blk["records"]):
                for part in parts:
                    assert len(part) % w.isz == 0
                    w.key(len(part) // w.isz)
                    w.rec(part)
                w.key(-(4 + r))
                w.key(1)
                w.key(0)
            w.key(0)
        truth.append(dict(name=blk["name"].strip(), kind=blk["kind"], start=start, stop=len(w.out), trailer=tuple(blk["trailer"])))
    for _ in range(eof_keys):  # some Nastran versions close the file with one more zero key
        w.key(0)
    return bytes(w.out), truth


def matrix_block(name, A, mtype, form=2, strings=None, tid=101):
    """logical matrix block from a dense array; strings(j, col) -> list of (start, length)"""
    from vf.ref.op4_enc import default_strings

    A = np.asarray(A)
    nrow, ncol = A.shape
    cols = []
    mx = 0
    for j in range(ncol):
        col = A[:, j]
        strs = strings(j, col) if strings is not None else default_strings(col)
        cols.append([(s, col[s : s + L]) for s, L in strs])
    wpv = {1: 1, 2: 2, 3: 2, 4: 4}[mtype]
    for strs in cols:
        for s, v in strs:
            mx = max(mx, len(v) * wpv)
    dens = int(round(10000.0 * np.count_nonzero(A) / max(1, A.size)))
    return dict(kind="matrix", name=name, trailer=(tid, ncol, nrow, form, mtype, mx, dens), cols=cols)


def table_block(name, records, trailer=(102, 1, 0, 0, 0, 0, 0)):
    return dict(kind="table", name=name, trailer=tuple(trailer), records=records)


# ------------------------------------------------------------------ tiny parser (for the binding self-test only)
def parse(b, endian="<", bit64=False):
    isz = 8 if bit64 else 4
    ic = "q" if bit64 else "i"
    pos = [0]

    def rec():
        p = pos[0]
        L = struct.unpack(endian + "i", b[p : p + 4])[0]
        body = b[p + 4 : p + 4 + L]
        pos[0] = p + 8 + L
        return body

    def key():
        return struct.unpack(endian + ic, rec())[0]

    def text(body):
        if not bit64:
            return body.decode()
        return "".join(body[i : i + 4].decode() for i in range(0, len(body), 8))

    header = None
    k = key()
    if k == 3:
        date = struct.unpack(endian + "3" + ic, rec())
        key()
        rec()
        key()
        label = text(rec())
        key()
        key()
        header = (date, label)
        k = key()
    blocks = []
    while True:
        if k == 0 or pos[0] >= len(b):
            break
        name = text(rec())[:8]
        key()
        key()
        trailer = struct.unpack(endian + "7" + ic, rec())
        key()
        key()
        key()
        nk = key()
        body = rec()
        body0 = body
        extra = struct.unpack(endian + "2" + ic, body[2 * isz :]) if nk == 4 else None
        name2 = text(body[: 2 * isz])[:8]
        key()
        key()
        typ = key()
        if typ > 0:
            mtype = trailer[4]
            cols = []
            dtype = 1
            while dtype > 0:
                strs = []
                kk = key()
                while kk > 0:
                    body = rec()
                    irow = struct.unpack(endian + ic, body[:isz])[0]
                    single = bool(mtype & 1) and not bit64
                    v = np.frombuffer(body[isz:], endian + ("f4" if single else "f8"))
                    if mtype > 2:
                        v = v[0::2] + 1j * v[1::2]
                    strs.append((irow - 1, v))
                    kk = key()
                cols.append(strs)
                key()
                dtype = key()
            key()
            blocks.append(dict(kind="matrix", name=name, name2=name2, trailer=trailer, cols=cols, name2_extra=extra, hdr_raw=body0))
        else:
            records = []
            kk = key()
            while kk != 0:
                parts = []
                while kk > 0:
                    parts.append(rec())
                    kk = key()
                key()
                key()
                records.append(parts)
                kk = key()
            blocks.append(dict(kind="table", name=name, name2=name2, trailer=trailer, records=records, hdr_raw=body0))
        if pos[0] >= len(b):
            break
        k = key()
    return header, blocks


def dense_of(blk):
    ncol, nrow, mtype = blk["trailer"][1], blk["trailer"][2], blk["trailer"][4]
    A = np.zeros((nrow, ncol), complex if mtype > 2 else float)
    for j, strs in enumerate(blk["cols"]):
        for s, v in strs:
            A[s : s + len(v), j] = v
    return A


def selftest(datadir):
    bad = []
    for fn, en, b64 in (("double_le.op2", "<", False), ("double_be.op2", ">", False), ("single_le.op2", "<", False), ("single_be.op2", ">", False),
                        ("rdop2gpwg_1.op2", "<", False), ("rdop2opg_1.op2", "<", False), ("tugd_2020_64bit.op2", "<", True),
                        ("tugd_2020_32bit.op2", "<", False)):
        path = os.path.join(datadir, fn)
        if not os.path.exists(path):
            continue
        with open(path, "rb") as f:
            b = f.read()
        try:
            header, blocks = parse(b, en, b64)
            got, _ = encode(blocks, en, b64, header)
            if len(b) - len(got) == 8 + (8 if b64 else 4):
                got, _ = encode(blocks, en, b64, header, eof_keys=1)
        except Exception as e:  # noqa
            bad.append("%s: parse/encode raised %r" % (fn, e))
            continue
        if got != b:
            n = next((i for i in range(min(len(got), len(b))) if got[i] != b[i]), min(len(got), len(b)))
            bad.append("op2 encoder does not reproduce %s (first difference at byte %d of %d/%d)" % (fn, n, len(got), len(b)))
        # Nastran's own choice of strings = maximal non-zero runs: rebuilding the blocks from dense content must also match
        if fn.startswith(("double", "single")):
            blocks2 = []
            for blk in blocks:
                if blk["kind"] == "matrix":
                    nb = matrix_block(blk["name"], dense_of(blk), blk["trailer"][4], blk["trailer"][3], tid=blk["trailer"][0])
                    nb["name2_extra"] = blk["name2_extra"]
                    nb["trailer"] = nb["trailer"][:5] + tuple(blk["trailer"][5:])
                    blocks2.append(nb)
                else:
                    blocks2.append(blk)
            got2, _ = encode(blocks2, en, b64, header)
            if got2 != b:
                bad.append("matrix_block() does not reproduce Nastran's string layout of " + fn)
    return bad
