"""Independent OUTPUT4 encoder (binary and ASCII), written from the format
notes and from dumps of Nastran-written sample files.  Shares no code with
pyyeti.nastran.op4.  `selftest()` binds it to reality: matrices decoded from a
Nastran-written dense file by the tiny decoder below are re-encoded in the
other layouts / byte orders and must reproduce Nastran's files byte for byte.

A matrix spec is dict(name, A (2-D ndarray), form, mtype in 1..4)."""
import os
import struct

import numpy as np


def words_per_value(mtype, bit64):
    cplx = mtype in (3, 4)
    if bit64:
        return 2 if cplx else 1
    return {1: 1, 2: 2, 3: 2, 4: 4}[mtype]


def _values_bytes(vals, mtype, endian, bit64):
    """vals: 1-D complex/real array of matrix entries -> bytes"""
    v = np.asarray(vals)
    if mtype in (3, 4):
        v = np.column_stack((v.real, v.imag)).ravel()
    else:
        v = v.real if np.iscomplexobj(v) else v
    if mtype in (1, 3) and not bit64:
        return v.astype(endian + "f4").tobytes()
    return v.astype(endian + "f8").tobytes()


def runs(nzmask):
    """maximal runs of True: list of (start, length)"""
    out = []
    i, n = 0, len(nzmask)
    while i < n:
        if nzmask[i]:
            j = i
            while j < n and nzmask[j]:
                j += 1
            out.append((i, j - i))
            i = j
        else:
            i += 1
    return out


def default_strings(col):
    return runs(col != 0)


def encode_binary(mats, endian="<", bit64=False, layout="dense", strings=None, trailer="nastran", dense_start=None, big_positive=False):
    """strings: optional function (matrix index, column index, column) -> list of (start,length) strings covering all
    non-zeros (used by sparse layouts).  dense_start: optional function (mi, j, first_nz) -> start row (<= first_nz).
    Returns (bytes, ground truth list with byte ranges)."""
    I = endian + ("q" if bit64 else "i")
    isz = 8 if bit64 else 4
    out = bytearray()
    truth = []

    def rec(body):
        out.extend(struct.pack(endian + "i", len(body)))
        out.extend(body)
        out.extend(struct.pack(endian + "i", len(body)))

    layouts = layout
    for mi, m in enumerate(mats):
        layout = layouts[mi] if isinstance(layouts, (list, tuple)) else layouts  # one layout per matrix is allowed
        A = np.asarray(m["A"])
        nrow, ncol = A.shape
        mtype = m["mtype"]
        wpv = words_per_value(mtype, bit64)
        start = len(out)
        name = m["name"].upper().ljust(16 if bit64 else 8).encode()
        # BIGMAT strings are announced by a negative row count - or are implied by 65536 or more rows (big_positive)
        neg = layout == "bigmat" and not (big_positive and nrow >= 65536)
        rec(struct.pack(endian + "4" + ("q" if bit64 else "i"), ncol, -nrow if neg else nrow, m["form"], mtype) + name)
        for j in range(ncol):
            col = A[:, j]
            nz = np.nonzero(col)[0]
            if nz.size == 0:
                continue
            if layout == "dense":
                s = int(nz[0])
                if dense_start is not None:
                    s = dense_start(mi, j, s)
                e = int(nz[-1])
                vals = col[s : e + 1]
                rec(struct.pack(endian + "3" + ("q" if bit64 else "i"), j + 1, s + 1, len(vals) * wpv) + _values_bytes(vals, mtype, endian, bit64))
            else:
                strs = strings(mi, j, col) if strings is not None else default_strings(col)
                body = bytearray()
                nwords = 0
                for s, L in strs:
                    Lw = L * wpv
                    if layout == "nonbigmat":
                        body.extend(struct.pack(I, (s + 1) + 65536 * (Lw + 1)))
                        nwords += 1 + Lw
                    else:
                        body.extend(struct.pack(endian + "2" + ("q" if bit64 else "i"), Lw + 1, s + 1))
                        nwords += 2 + Lw
                    body.extend(_values_bytes(col[s : s + L], mtype, endian, bit64))
                rec(struct.pack(endian + "3" + ("q" if bit64 else "i"), j + 1, 0, nwords) + bytes(body))
        one = 1.0
        if trailer == "nastran":
            rec(struct.pack(endian + "3" + ("q" if bit64 else "i"), ncol + 1, 1, 1) + _values_bytes(np.array([one]), 1 if mtype in (1, 3) else 2, endian, bit64))
        else:  # pyYeti's own writer: 2 words holding sqrt(2) as a double (32-bit keys)
            rec(struct.pack(endian + "3" + ("q" if bit64 else "i"), ncol + 1, 1, 2 if not bit64 else 1) + struct.pack(endian + "d", 2 ** 0.5))
        truth.append(dict(name=m["name"].lower(), shape=(nrow, ncol), form=m["form"], mtype=mtype, start=start, stop=len(out), layout=layout))
    return bytes(out), truth


def fortran_e(x, numlen, digits, dchar="E"):
    if x == 0:
        x = 0.0  # Fortran prints minus zero without the sign
    s = "%*.*E" % (numlen, digits, x)
    return s.replace("E", dchar)


def encode_ascii(mats, numlen=16, digits=9, perline=5, dchar="E", layout="dense", strings=None, bit64=False, onep=True,
                 int16=False, trailer="nastran", name_pad=" ", big_positive=False):
    """returns (text, truth, decimal: list of matrices holding float(text of each written value))"""
    lines = []
    truth = []
    expected = []
    iw = 16 if int16 else 8

    layouts, fmt0 = layout, (numlen, digits, perline)

    def numbers(vals, mtype):
        v = np.asarray(vals)
        if mtype in (3, 4):
            v = np.column_stack((v.real, v.imag)).ravel()
        else:
            v = v.real if np.iscomplexobj(v) else v
        strs = [fortran_e(float(x), numlen, digits, dchar) for x in v]
        for i in range(0, len(strs), perline):
            lines.append("".join(strs[i : i + perline]))
        return [float(s.replace("D", "E")) for s in strs]

    for mi, m in enumerate(mats):
        layout = layouts[mi] if isinstance(layouts, (list, tuple)) else layouts  # one layout per matrix is allowed
        numlen, digits, perline = m.get("fmt", fmt0)  # ... and one number format per matrix
        A = np.asarray(m["A"])
        nrow, ncol = A.shape
        mtype = m["mtype"]
        wpv = words_per_value(mtype, bit64)
        X = np.zeros(A.shape, complex if mtype in (3, 4) else float)
        fmt = "%s%d%s%d.%d" % ("1P," if onep else "", perline, dchar, numlen, digits)
        nm = m["name"].upper()
        nm = nm + name_pad * (8 - len(nm))
        neg = layout == "bigmat" and not (big_positive and nrow >= 65536)
        lines.append("%*d%*d%8d%8d%s%s%s" % (iw, ncol, iw, -nrow if neg else nrow, m["form"], mtype, nm, fmt, "|I16" if int16 else ""))

        def put(j, s, dec):
            if mtype in (3, 4):
                vals = np.array(dec[0::2]) + 1j * np.array(dec[1::2])
            else:
                vals = np.array(dec)
            X[s : s + len(vals), j] = vals

        for j in range(ncol):
            col = A[:, j]
            nz = np.nonzero(col)[0]
            if nz.size == 0:
                continue
            if layout == "dense":
                s, e = int(nz[0]), int(nz[-1])
                # dense ASCII columns announce the number of printed real numbers (not machine words)
                lines.append("%8d%8d%8d" % (j + 1, s + 1, (e - s + 1) * (2 if mtype in (3, 4) else 1)))
                put(j, s, numbers(col[s : e + 1], mtype))
            else:
                strs = strings(mi, j, col) if strings is not None else default_strings(col)
                if layout == "nonbigmat":
                    nwords = sum(1 + L * wpv for s, L in strs)
                else:
                    nwords = sum(2 + L * wpv for s, L in strs)
                lines.append("%8d%8d%8d" % (j + 1, 0, nwords))
                for s, L in strs:
                    Lw = L * wpv
                    if layout == "nonbigmat":
                        lines.append("%8d" % ((s + 1) + 65536 * (Lw + 1)))
                    else:
                        lines.append("%8d%8d" % (Lw + 1, s + 1))
                    put(j, s, numbers(col[s : s + L], mtype))
        lines.append("%8d%8d%8d" % (ncol + 1, 1, 1))
        lines.append(fortran_e(1.0, numlen, digits, dchar))
        truth.append(dict(name=m["name"].lower(), shape=(nrow, ncol), form=m["form"], mtype=mtype, layout=layout))
        expected.append(X)
    return "\n".join(lines) + "\n", truth, expected


# ------------------------------------------------------------------ binding to Nastran-written files
def tiny_decode_dense(b, endian, bit64=False):
    """decode a *dense-layout* binary OUTPUT4 file (used only to recover the logical content of sample files)"""
    isz = 8 if bit64 else 4
    ic = "q" if bit64 else "i"
    p = 0
    mats = []
    while p < len(b):
        L = struct.unpack(endian + "i", b[p : p + 4])[0]
        body = b[p + 4 : p + 4 + L]
        p += 8 + L
        ncol, nrow, form, mtype = struct.unpack(endian + "4" + ic, body[: 4 * isz])
        name = body[4 * isz :].decode().strip()
        cplx = mtype in (3, 4)
        A = np.zeros((abs(nrow), ncol), complex if cplx else float)
        while True:
            L = struct.unpack(endian + "i", b[p : p + 4])[0]
            body = b[p + 4 : p + 4 + L]
            p += 8 + L
            c, r, nw = struct.unpack(endian + "3" + ic, body[: 3 * isz])
            data = body[3 * isz :]
            if c > ncol:
                break
            dt = endian + ("f4" if (mtype in (1, 3) and not bit64) else "f8")
            v = np.frombuffer(data, dt).astype(float)
            if cplx:
                v = v[0::2] + 1j * v[1::2]
            A[r - 1 : r - 1 + len(v), c - 1] = v
        mats.append(dict(name=name, A=A, form=form, mtype=mtype))
    return mats


def selftest(datadir):
    """returns list of problems (empty = the encoder reproduces Nastran's files)"""
    bad = []

    def rd(fn):
        with open(os.path.join(datadir, fn), "rb") as f:
            return f.read()

    for prec in ("double", "single"):
        src = tiny_decode_dense(rd("%s_dense_le.op4" % prec), "<")
        for layout in ("dense", "nonbigmat", "bigmat"):
            for en, tag in (("<", "le"), (">", "be")):
                fn = "%s_%s_%s.op4" % (prec, layout, tag)
                got, _ = encode_binary(src, endian=en, layout=layout)
                if got != rd(fn):
                    bad.append("binary encoder does not reproduce " + fn)
    # 64-bit keys: small big-endian files (dense), whole-file reproduction
    for fn in ("rdbin.op4", "rsbin.op4", "cdbin.op4", "csbin.op4"):
        src = tiny_decode_dense(rd(fn), ">", bit64=True)
        got, _ = encode_binary(src, endian=">", bit64=True, layout="dense")
        if got != rd(fn):
            bad.append("64-bit encoder does not reproduce " + fn)
    # 64-bit sparse layouts: the first 10 column records of Nastran's large-dimension files (10000001 columns)
    def records(b, n):
        out, p = [], 0
        while p < len(b) and len(out) < n:
            L = struct.unpack("<i", b[p : p + 4])[0]
            out.append(b[p : p + 8 + L])
            p += 8 + L
        return out

    dense = records(rd("nas_large_dim_dense_binary.op4"), 11)
    A = np.zeros((19, 10))
    for r in dense[1:]:
        c, r0, nw = struct.unpack("<3q", r[4:28])
        v = np.frombuffer(r[28:-4], "<f8")
        A[r0 - 1 : r0 - 1 + len(v), c - 1] = v
    small = [dict(name="MATD", A=A, form=2, mtype=1)]
    for layout in ("nonbigmat", "bigmat", "dense"):
        got, _ = encode_binary(small, endian="<", bit64=True, layout=layout)
        mine = records(got, 11)[1:]
        theirs = records(rd("nas_large_dim_%s_binary.op4" % layout), 11)[1:]
        if mine != theirs:
            bad.append("64-bit %s column records differ from nas_large_dim_%s_binary.op4" % (layout, layout))
    # ASCII: same logical content as the double binary file, Nastran's formats
    src = tiny_decode_dense(rd("double_dense_le.op4"), "<")
    for layout, (numlen, digits, perline) in (("dense", (16, 9, 5)), ("bigmat", (16, 9, 5)), ("nonbigmat", (21, 14, 3))):
        for dchar, suffix in (("E", ""), ("D", "_d")):
            fn = "double_%s_ascii%s.op4" % (layout, suffix)
            txt, _, _ = encode_ascii(src, numlen, digits, perline, dchar, layout)
            if txt.encode() != rd(fn):
                bad.append("ASCII encoder does not reproduce " + fn)
    return bad
