"""R1: exact response of  M q'' + B q' + K q = F(t)  (and of y' = A y + Bu)
for piecewise-linear (order 1) or piecewise-constant (order 0) forcing,
computed with mpmath from the statement's mathematics only: the matrix
exponential of the augmented (Van Loan) matrix at 40+ digits.  No pyYeti
formulas are used."""
import functools

import numpy as np

import vf.core  # noqa (adds .deps to sys.path)
import mpmath as mp


def _mpm(a):
    a = np.asarray(a)
    if a.ndim == 1:
        a = a.reshape(-1, 1)
    m = mp.matrix(a.shape[0], a.shape[1])
    for i in range(a.shape[0]):
        for j in range(a.shape[1]):
            v = a[i, j]
            m[i, j] = mp.mpc(float(v.real), float(v.imag)) if np.iscomplexobj(a) else mp.mpf(float(v))
    return m


def _tonp(m, cplx=False):
    out = np.empty((m.rows, m.cols), dtype=complex if cplx else float)
    for i in range(m.rows):
        for j in range(m.cols):
            out[i, j] = complex(m[i, j]) if cplx else float(mp.re(m[i, j]))
    return out


def step_matrices(A, Bm, h, order, dps=40):
    """E, G0, G1 with  y[n+1] = E y[n] + G0 u[n] + G1 (u[n+1]-u[n])  (G1 is None for order 0)
    A: (n,n) ndarray, Bm: (n,m) ndarray"""
    with mp.workdps(dps):
        n = A.shape[0]
        m = Bm.shape[1]
        size = n + m + (m if order == 1 else 0)
        Z = mp.matrix(size, size)
        Am, Bmm = _mpm(A), _mpm(Bm)
        hh = mp.mpf(float(h))
        for i in range(n):
            for j in range(n):
                Z[i, j] = Am[i, j] * hh
            for j in range(m):
                Z[i, n + j] = Bmm[i, j] * hh
        if order == 1:
            for j in range(m):
                Z[n + j, n + m + j] = mp.mpf(1)  # (I/h) * h
        X = mp.expm(Z, method="taylor")
        E = X[0:n, 0:n]
        G0 = X[0:n, n : n + m]
        G1 = X[0:n, n + m : n + 2 * m] if order == 1 else None
        return E, G0, G1


def first_order_response(A, Bm, h, U, y0, order, dps=40, cplx=False):
    """exact samples of y' = A y + Bm u(t); U: (m, nt) input samples.  returns (n, nt) ndarray"""
    with mp.workdps(dps):
        E, G0, G1 = step_matrices(np.asarray(A), np.asarray(Bm), h, order, dps)
        nt = U.shape[1]
        Um = _mpm(U)
        y = _mpm(np.asarray(y0).reshape(-1, 1))
        cols = [y]
        for i in range(nt - 1):
            u0 = Um[:, i]
            ynew = E * y + G0 * u0
            if order == 1:
                ynew = ynew + G1 * (Um[:, i + 1] - u0)
            y = ynew
            cols.append(y)
        out = np.empty((A.shape[0], nt), dtype=complex if cplx else float)
        for i, c in enumerate(cols):
            out[:, i] = _tonp(c, cplx)[:, 0]
        return out


def second_order_response(M, B, K, h, F, d0=None, v0=None, order=1, rf=None, dps=40):
    """exact d, v, a (n x nt float arrays) of M q'' + B q' + K q = F; rf = indices solved statically
    (d = K_rf^-1 F_rf, v = a = 0; coupling between rf and the rest is ignored, as documented)"""
    M, B, K = (np.atleast_2d(np.asarray(x, dtype=float)) for x in (M, B, K))
    n = K.shape[0]
    F = np.asarray(F, dtype=float).reshape(n, -1)
    nt = F.shape[1]
    rf = np.array([], int) if rf is None else np.asarray(rf, int)
    dyn = np.array([i for i in range(n) if i not in set(rf.tolist())], int)
    d = np.zeros((n, nt))
    v = np.zeros((n, nt))
    a = np.zeros((n, nt))
    with mp.workdps(dps):
        if rf.size:
            Krf = _mpm(K[np.ix_(rf, rf)])
            sol = (Krf ** -1) * _mpm(F[rf])
            d[rf] = _tonp(sol)
        if dyn.size:
            nd = dyn.size
            Md, Bd, Kd = (_mpm(X[np.ix_(dyn, dyn)]) for X in (M, B, K))
            Mi = Md ** -1
            A = mp.matrix(2 * nd, 2 * nd)
            MB = Mi * Bd
            MK = Mi * Kd
            for i in range(nd):
                for j in range(nd):
                    A[i, j] = -MB[i, j]
                    A[i, nd + j] = -MK[i, j]
                A[nd + i, i] = mp.mpf(1)
            Bin = mp.matrix(2 * nd, nd)
            for i in range(nd):
                for j in range(nd):
                    Bin[i, j] = Mi[i, j]
            E, G0, G1 = _step_mp(A, Bin, mp.mpf(float(h)), order) if nt > 1 else (None, None, None)
            Fm = _mpm(F[dyn])
            y = mp.matrix(2 * nd, 1)
            for i in range(nd):
                y[i] = mp.mpf(0.0 if v0 is None else float(v0[dyn[i]]))
                y[nd + i] = mp.mpf(0.0 if d0 is None else float(d0[dyn[i]]))
            for t in range(nt):
                if t > 0:
                    u0 = Fm[:, t - 1]
                    ynew = E * y + G0 * u0
                    if order == 1:
                        ynew = ynew + G1 * (Fm[:, t] - u0)
                    y = ynew
                vv = y[0:nd, 0]
                dd = y[nd : 2 * nd, 0]
                acc = Mi * (Fm[:, t] - Bd * vv - Kd * dd)
                for i in range(nd):
                    v[dyn[i], t] = float(vv[i])
                    d[dyn[i], t] = float(dd[i])
                    a[dyn[i], t] = float(acc[i])
    return d, v, a


def _step_mp(A, Bin, hh, order):
    n, m = A.rows, Bin.cols
    size = n + m + (m if order == 1 else 0)
    Z = mp.matrix(size, size)
    for i in range(n):
        for j in range(n):
            Z[i, j] = A[i, j] * hh
        for j in range(m):
            Z[i, n + j] = Bin[i, j] * hh
    if order == 1:
        for j in range(m):
            Z[n + j, n + m + j] = mp.mpf(1)
    # scale so that the Taylor series converges quickly even for stiff problems
    X = mp.expm(Z)
    return X[0:n, 0:n], X[0:n, n : n + m], (X[0:n, n + m : n + 2 * m] if order == 1 else None)
