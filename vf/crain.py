"""Build pyyeti/rainflow/c_rain.c from /repo's working tree into a scratch
directory (never trusting the git-ignored .so that sits in the tree) and make
it the module pyyeti.cyclecount will import."""
import atexit
import importlib.machinery
import importlib.util
import os
import shutil
import subprocess
import sys
import sysconfig
import tempfile

from vf.core import REPO, HarnessError

_SCRATCH = None
_MODS = {}


def scratch():
    global _SCRATCH
    if _SCRATCH is None:
        base = "/dev/shm" if os.path.isdir("/dev/shm") and os.access("/dev/shm", os.W_OK) else None
        _SCRATCH = tempfile.mkdtemp(prefix="vf_scratch_", dir=base)
        pid = os.getpid()

        def _rm(d=_SCRATCH, pid=pid):
            if os.getpid() == pid:
                shutil.rmtree(d, ignore_errors=True)

        atexit.register(_rm)
    return _SCRATCH


def cleanup():
    global _SCRATCH
    if _SCRATCH:
        shutil.rmtree(_SCRATCH, ignore_errors=True)
        _SCRATCH = None


def build(variant="fast", asan=False):
    """variant 'fast' = file as is; 'twopass' = USE_FASTER_RAINFLOW_ROUTINE removed.
    Returns path of the built shared object."""
    import numpy

    src = os.path.join(REPO, "pyyeti", "rainflow", "c_rain.c")
    with open(src) as f:
        text = f.read()
    if variant == "twopass":
        if "#define USE_FASTER_RAINFLOW_ROUTINE" not in text:
            raise HarnessError("c_rain.c no longer has the USE_FASTER_RAINFLOW_ROUTINE switch")
        text = text.replace("#define USE_FASTER_RAINFLOW_ROUTINE", "/* two-pass variant */", 1)
    d = os.path.join(scratch(), "crain_%s%s" % (variant, "_asan" if asan else ""))
    os.makedirs(d, exist_ok=True)
    csrc = os.path.join(d, "c_rain.c")
    with open(csrc, "w") as f:
        f.write(text)
    so = os.path.join(d, "c_rain" + sysconfig.get_config_var("EXT_SUFFIX"))
    cmd = [
        "gcc", "-shared", "-fPIC", "-O1" if asan else "-O2", "-g",
        "-I" + sysconfig.get_paths()["include"], "-I" + numpy.get_include(),
        csrc, "-o", so,
    ]
    if asan:
        cmd[1:1] = ["-fsanitize=address", "-fno-omit-frame-pointer"]
    p = subprocess.run(cmd, capture_output=True, text=True)
    if p.returncode != 0:
        raise HarnessError("c_rain.c does not compile:\n" + p.stderr[-3000:])
    return so


def load(variant="fast", install=False):
    """compile + import; with install=True registers the module as
    pyyeti.rainflow.c_rain (must happen before pyyeti.cyclecount is imported)"""
    key = (variant, install)
    if key in _MODS:
        return _MODS[key]
    so = build(variant)
    name = "pyyeti.rainflow.c_rain" if install else "c_rain"
    if install and "pyyeti.cyclecount" in sys.modules:
        raise HarnessError("pyyeti.cyclecount imported before the tree-built c_rain was installed")
    loader = importlib.machinery.ExtensionFileLoader(name, so)
    spec = importlib.util.spec_from_file_location(name, so, loader=loader)
    mod = importlib.util.module_from_spec(spec)
    loader.exec_module(mod)
    if install:
        import pyyeti.rainflow as pkg

        sys.modules[name] = mod
        pkg.c_rain = mod
    _MODS[key] = mod
    return mod
