"""setup-time self test: dependencies, compilers, schema, pyyeti import."""
import json
import shutil
import sys

import vf.core  # noqa  (sets sys.path for .deps)


def main():
    import jsonschema  # noqa
    import mpmath  # noqa
    import networkx  # noqa
    import numpy  # noqa
    import scipy  # noqa
    import pyyeti  # noqa

    assert pyyeti.__file__.startswith("/repo/"), pyyeti.__file__
    for tool in ("gcc",):
        assert shutil.which(tool), tool + " missing"
    for tool in ("tlc",):
        if not shutil.which(tool):
            print("selftest: warning: %s not on PATH (TLC cross-check will be skipped)" % tool)
    with open("/root/.vp/EVIDENCE.schema.json") as f:
        json.load(f)
    print("selftest ok: python %s, numpy %s, scipy %s" % (sys.version.split()[0], numpy.__version__, scipy.__version__))


if __name__ == "__main__":
    main()
