"""debug aid: run a check and print violation kinds with one example each
usage: python -m vf.dbg C01 quick [maxkinds]"""
import importlib
import sys
import warnings

from vf import core


def main():
    prop, tier = sys.argv[1].upper(), sys.argv[2]
    mx = int(sys.argv[3]) if len(sys.argv) > 3 else 60
    mod = importlib.import_module("vf.checks." + prop.lower())
    warnings.simplefilter("ignore")
    if hasattr(mod, "setup"):
        mod.setup(tier, 0)
    try:
        res = core.run_shards(mod, mod.shards(tier, 0))
    finally:
        if hasattr(mod, "teardown"):
            mod.teardown()
    print("evaluations", res.evaluations, "sigs", len(res.sigs), "nviol", res.nviol, "exits", dict(res.exits))
    for k, v in sorted(res.maxerr.items()):
        print("  maxerr %-50s %.3g  %s" % (k, v[0], v[1] if v[1] else ""))
    seen = set()
    for k, n in res.kinds.most_common(mx):
        ex = next(v for v in res.viols if v["kind"] == k)
        print("%6d  %s\n        case=%s\n        %s" % (n, k, core.jdumps(ex["case"])[:400], ex["msg"][:400]))


if __name__ == "__main__":
    main()
