"""C03 - shock response spectrum: response histories equal the exact SDOF
response to the linearly interpolated base acceleration under every ic rule;
spectrum = stated statistic over the stated window; algebraic invariants;
resampling contract; srs_frf / vrs closed forms.  K1 grid, oracle R1."""
import itertools
import math
import warnings

import numpy as np

import vf.core  # noqa
from vf.core import Result

PROP = "C03"
LEVEL = "model_checking"
ISOLATE_SHARDS = True  # call histories start from the import-time module state
RULE = (
    "signals: ALL sequences of length 1..L over {-1,0,0.5,1} packed as columns of one 2-D call per length, plus three "
    "fixed longer records; x sr/fn in {4,12.5,100,2000} and the fn=0 branch x Q in {0.51,0.7071,10,50} x stype(6) x ic(4) "
    "x time(3) with getresp; peak(6+callable) x eqsine on top; frequency vectors of 1-2 entries in both orders (pad "
    "length depends on the lowest non-zero frequency of the call).  Oracle: exact two-state response (one-step matrices "
    "from a 40-digit expm, stepping in long double) with the record preceded by one zero sample (zero ICs one step "
    "before the record), ic shifts / steady-state add-back from the statement, window and statistic applied to the "
    "reference history.  Invariants on pyYeti's own outputs (abs=max(pos,neg), total>=primary,residual, pvelo=w*reldisp, "
    "pacce=w^2*reldisp, eqsine=srs/Q, +-2^k scaling, column permutation, 1-D==2-D).  Resampling contract per rolloff. "
    "srs_frf, vrs, Miles against transcriptions of their documented formulas.  signature=stype/ic/time/ratio/Q/length"
)
ASSUMPTIONS = [
    "tolerance on histories and spectra: 2000*eps*max(1,sr/fn)^2 (x N/20 for relacce) relative to the largest response of the call (ramp-"
    "invariant coefficients lose (sr/fn)^2 digits; in scope up to sr/fn=2000)",
    "signal values from a 4-letter alphabet; lengths <= 5 exhaustive + 3 longer records",
]
EPS = 2.220446049250313e-16
ALPHA = [-1.0, 0.0, 0.5, 1.0]
STYPES = ("absacce", "relacce", "reldisp", "relvelo", "pvelo", "pacce")
ICS = ("zero", "shift", "mshift", "steady")
TIMES = ("primary", "total", "residual")
PEAKS = ("abs", "pos", "neg", "rms", "poss", "negs")
SR = 200.0
_STEP = {}


def bounds(tier):
    return {"quick": "lengths 1..4 exhaustive (340 signals) + 2 long records; sr/fn in {4,12.5,2000}+fn=0; Q in {0.7071,10}",
            "thorough": "lengths 1..5 exhaustive (1364 signals) + 3 long records; sr/fn in {4,12.5,100,2000}+fn=0; Q in {0.51,0.7071,10,50}"}.get(tier, "")


def peak_callable(resp):
    return np.abs(resp).max(axis=0) * 0.5 + resp.mean(axis=0) * 0.0 + 0.5 * np.abs(resp).max(axis=0)


def step(fn, Q, sr):
    """one-step matrices of y=[z', z], z'' + (w/Q) z' + w^2 z = -u, u piecewise linear; long double"""
    key = (fn, Q, sr)
    if key not in _STEP:
        from vf.ref import ode_ref

        w = 2 * math.pi * fn
        A = np.array([[-w / Q, -w * w], [1.0, 0.0]])
        B = np.array([[-1.0], [0.0]])
        E, G0, G1 = ode_ref.step_matrices(A, B, 1.0 / sr, 1, dps=40)
        ld = np.longdouble
        _STEP[key] = (np.array([[ld(str(E[i, j])) if False else ld(float(E[i, j])) + ld(float(E[i, j] - float(E[i, j]))) for j in range(2)] for i in range(2)]),
                      np.array([ld(float(G0[i, 0])) + ld(float(G0[i, 0] - float(G0[i, 0]))) for i in range(2)]),
                      np.array([ld(float(G1[i, 0])) + ld(float(G1[i, 0] - float(G1[i, 0]))) for i in range(2)]))
    return _STEP[key]


def ref_hist(sig, sr, freqs, Q, ic, stype, time):
    """reference response histories (N' x H x LF) and the window slice, from the statement"""
    ld = np.longdouble
    sig = np.asarray(sig, dtype=float)
    N, Hc = sig.shape
    s1 = sig[0].copy()
    if ic == "shift":
        u = sig - s1
    elif ic == "mshift":
        u = sig - sig.mean(axis=0)
    elif ic == "steady":
        u = sig - s1
    else:
        u = sig.copy()
    M = N
    ptr = TIMES.index(time)
    if ptr:
        nz = [f for f in freqs if f > 0]
        if nz:
            nzeros = int(math.ceil(sr / min(nz)))
            pad = np.zeros((nzeros, Hc)) - (s1 if ic == "steady" else 0.0)
            u = np.vstack((u, pad))
    Nt = u.shape[0]
    out = np.zeros((Nt, Hc, len(freqs)))
    ul = np.vstack((np.zeros((1, Hc)), u)).astype(ld)  # one zero sample before the record
    for jf, fn in enumerate(freqs):
        w = 2 * math.pi * fn
        E, G0, G1 = step(fn, Q, sr)
        y = np.zeros((2, Hc), ld)
        zs = np.zeros((Nt, Hc), ld)
        zd = np.zeros((Nt, Hc), ld)
        for n in range(Nt):
            u0, u1 = ul[n], ul[n + 1]
            y = E @ y + np.outer(G0, u0) + np.outer(G1, u1 - u0)
            zd[n], zs[n] = y[0], y[1]
        if stype == "reldisp":
            r = zs
        elif stype == "relvelo":
            r = zd
        elif stype == "pvelo":
            r = zs * ld(w)
        elif stype == "pacce":
            r = zs * ld(w) * ld(w)
        elif stype == "absacce":
            r = -(ld(w) / ld(Q)) * zd - ld(w) * ld(w) * zs
        else:  # relacce
            r = -ul[1:] - (ld(w) / ld(Q)) * zd - ld(w) * ld(w) * zs
        if ic == "steady":
            # steady state of the first sample is added back: abs acc s1, z = -s1/w^2
            if stype == "absacce":
                r = r + s1
            elif stype == "reldisp":
                r = r - s1 / (w * w) if w else r
            elif stype == "pvelo":
                r = r - s1 / w * 1.0 if w else r
            elif stype == "pacce":
                r = r - s1
        out[:, :, jf] = r.astype(float)
    S = M if ptr == 2 else 0
    ref_hist.fullmax = np.abs(out).max(axis=(0, 1))  # per frequency, over the whole (unwindowed) history
    return out[S:], (np.arange(S, Nt) / sr if ptr == 2 else np.arange(Nt) / sr)


def statistic(h, peak):
    if peak == "abs":
        return np.abs(h).max(axis=0)
    if peak == "pos":
        return np.abs(h.max(axis=0))
    if peak == "neg":
        return np.abs(h.min(axis=0))
    if peak == "rms":
        return np.sqrt((h ** 2).mean(axis=0))
    if peak == "poss":
        return h.max(axis=0)
    if peak == "negs":
        return h.min(axis=0)
    return peak_callable(h)


def signals(L):
    """all sequences of length L over the alphabet, as columns"""
    return np.array(list(itertools.product(ALPHA, repeat=L)), dtype=float).T


def long_records():
    out = {}
    for n in (8, 33, 257):
        t = np.arange(n)
        out["long%d" % n] = np.column_stack((np.sin(0.9 * t) + 0.3 * np.cos(2.3 * t + 1), np.where(t % 7 < 3, 1.0, -0.5) * (1 + 0.01 * t)))
    return out


def check_hist(sigs, ratio, Q, stype, ic, time, fvariant, res, peaks=PEAKS + ("callable",)):
    from pyyeti import srs

    msgs = []
    if ratio == 0:
        fmain = 0.0
    else:
        fmain = SR / ratio
    freqs = {"single": [fmain], "pair": [fmain, 3 * fmain if fmain else 5.0], "pair_rev": [3 * fmain if fmain else 5.0, fmain]}[fvariant]
    if time != "primary" and not any(f > 0 for f in freqs):
        pass
    scale_ratio = max([SR / f for f in freqs if f > 0] + [1.0])
    href, tref = ref_hist(sigs, SR, freqs, Q, ic, stype, time)
    fullmax = ref_hist.fullmax
    ntot = href.shape[0] + (sigs.shape[0] if time == "residual" else 0)
    # ramp-invariant coefficients lose (sr/fn)^2 digits; the relacce filter (second difference of the input fed to a
    # double pole near 1) additionally accumulates with the number of samples
    tol = 2000 * EPS * scale_ratio ** 2 * (max(1.0, ntot / 20.0) if stype == "relacce" else 1.0)
    try:
        with warnings.catch_warnings():
            warnings.simplefilter("ignore")
            sh, resp = srs.srs(sigs.copy(), SR, np.array(freqs), Q, ic=ic, stype=stype, peak="abs", rolloff="none", time=time,
                               getresp=True, parallel="no")
    except Exception as e:  # noqa
        return ["srs raised %r" % (e,)]
    h = resp["hist"]
    if h.shape != href.shape:
        return ["response history has shape %s, expected %s (window/padding wrong)" % (h.shape, href.shape)]
    sc = np.abs(href).max(axis=0, keepdims=True)
    colsc = np.maximum(sc, 1e-3 * sc.max(axis=1, keepdims=True))
    colsc = np.maximum(colsc, 1e-3 * fullmax[None, None, :])
    colsc = np.maximum(colsc, 1e-300)
    err = (np.abs(h - href) / colsc)
    err[np.broadcast_to(sc == 0, err.shape) & (h == 0)] = 0
    e = float(err.max()) if err.size else 0.0
    res.err("hist/%s/r%g" % (stype, ratio), e / tol)
    if not e <= tol:
        i = np.unravel_index(np.argmax(err), err.shape)
        msgs.append("response history differs from the exact SDOF response (sample %d, signal %d, freq #%d): rel err %.3g > tol %.3g"
                    % (i[0], i[1], i[2], e, tol))
    if not (resp["t"].shape == tref.shape and np.allclose(resp["t"], tref, rtol=1e-14, atol=0)):
        msgs.append("resp['t'] is not the time vector of the stated window")
    if resp["sr"] != SR:
        msgs.append("resp['sr'] changed although no resampling was requested")
    want = statistic(href, "abs").T
    if not np.abs(sh - want).max() <= tol * max(np.abs(want).max(), 1e-300):
        msgs.append("spectrum is not the abs peak of the history over the %s window" % time)
    # every peak rule and eqsine, against the statistic of pyYeti's own (already validated) history
    for peak, eqs in itertools.product(peaks, (False, True)):
        pk = peak_callable if peak == "callable" else peak
        try:
            with warnings.catch_warnings():
                warnings.simplefilter("ignore")
                s2 = srs.srs(sigs.copy(), SR, np.array(freqs), Q, ic=ic, stype=stype, peak=pk, rolloff="none", time=time,
                             eqsine=eqs, parallel="no")
        except Exception as e:  # noqa
            msgs.append("srs(peak=%s, eqsine=%s) raised %r" % (peak, eqs, e))
            continue
        w2 = statistic(h, peak).T
        if eqs:
            w2 = w2 / Q
        if s2.shape != w2.shape or not np.abs(s2 - w2).max() <= 8 * EPS * max(np.abs(w2).max(), 1e-300):
            msgs.append("spectrum (peak=%s, eqsine=%s, time=%s) is not the stated statistic of the response history" % (peak, eqs, time))
    return msgs


def check_invariants(sigs, ratio, Q, res):
    from pyyeti import srs

    msgs = []
    fmain = SR / ratio
    fr = np.array([fmain, 2.5 * fmain])
    w = 2 * np.pi * fr

    def S(sig, **kw):
        kw.setdefault("rolloff", "none")
        kw.setdefault("parallel", "no")
        with warnings.catch_warnings():
            warnings.simplefilter("ignore")
            return srs.srs(sig, SR, fr, Q, **kw)

    for stype, ic in itertools.product(STYPES, ICS):
        base = {t: S(sigs.copy(), stype=stype, ic=ic, time=t) for t in TIMES}
        pos = S(sigs.copy(), stype=stype, ic=ic, peak="pos")
        neg = S(sigs.copy(), stype=stype, ic=ic, peak="neg")
        if not np.array_equal(base["primary"], np.maximum(pos, neg)):
            msgs.append("%s/%s: abs spectrum != max(pos, neg)" % (stype, ic))
        tol = 1e-12 * max(np.abs(base["total"]).max(), 1e-300)
        if not (np.all(base["total"] >= base["primary"] - tol) and np.all(base["total"] >= base["residual"] - tol)):
            msgs.append("%s/%s: total spectrum below primary or residual" % (stype, ic))
        # scaling by +-2^k and column permutation
        for fac in (-4.0, 0.125):
            if not np.array_equal(S(sigs * fac, stype=stype, ic=ic), base["primary"] * abs(fac)):
                msgs.append("%s/%s: spectrum does not scale linearly with the input (factor %g)" % (stype, ic, fac))
        perm = np.arange(sigs.shape[1])[::-1]
        if not np.array_equal(S(sigs[:, perm].copy(), stype=stype, ic=ic), base["primary"][:, perm]):
            msgs.append("%s/%s: spectrum depends on signal column order" % (stype, ic))
        for c in (0, sigs.shape[1] // 2, sigs.shape[1] - 1):
            one = S(sigs[:, c].copy(), stype=stype, ic=ic)
            if one.ndim != 1 or not np.array_equal(one, base["primary"][:, c]):
                msgs.append("%s/%s: 1-D packaging differs from the 2-D column" % (stype, ic))
        res.ev("inv/%s/%s/r%g" % (stype, ic, ratio))
    for ic in ICS:
        rd = S(sigs.copy(), stype="reldisp", ic=ic, getresp=True)
        pv = S(sigs.copy(), stype="pvelo", ic=ic, getresp=True)
        pa = S(sigs.copy(), stype="pacce", ic=ic, getresp=True)
        tol = 200 * EPS * ratio ** 2
        for nm, x, k in (("pvelo = w*reldisp", pv, w), ("pacce = w^2*reldisp", pa, w * w)):
            want = rd[1]["hist"] * k[None, None, :]
            sc = max(np.abs(want).max(), 1e-300)
            if not np.abs(x[1]["hist"] - want).max() <= tol * sc:
                msgs.append("ic=%s: %s violated (rel err %.3g)" % (ic, nm, np.abs(x[1]["hist"] - want).max() / sc))
    return msgs


def check_forms(res):
    """the record may be any real array-like holding the same VALUES: every integer dtype that can hold them (signed,
    unsigned, narrow), nested lists, Fortran order and strided views give the spectrum and histories of the float64
    C-ordered record bit for bit; the caller's arrays (signal and frequency vector) are never modified"""
    from pyyeti import srs

    msgs = []
    recs = {
        "signed": np.array([[0, 3], [3, -1], [-2, 4], [5, 0], [1, -6], [-4, 2], [2, 2], [0, -3], [6, 1], [-3, 0], [1, 5], [2, -2], [-1, 3], [4, -4]], dtype=np.int64),
        # first sample large: unsigned / narrow arithmetic on (sig - sig[0]) would wrap around
        "unsigned": np.array([[200, 90], [10, 255], [250, 0], [0, 128], [255, 7], [3, 250], [128, 31], [90, 200], [254, 254], [1, 2], [1, 77], [77, 130], [30, 9], [180, 60]], dtype=np.int64),
    }
    fr = np.array([5.0, 12.0, 33.0])
    for rname, oneD, stype, ic, tm, getresp, rolloff in itertools.product(recs, (True, False), ("absacce", "pvelo", "reldisp"), ICS, ("primary", "residual"),
                                                                      (False, True), ("none", "lanczos", "prefilter")):
        Xi = recs[rname]
        big = np.full((2 * Xi.shape[0] + 1, 2 * Xi.shape[1] + 1), 77.0)
        big[1::2, 1::2] = Xi
        x = Xi[:, 0] if oneD else Xi
        forms = {"list": x.tolist(), "strided": (big[1::2, 1] if oneD else big[1::2, 1::2]), "fortran": np.asfortranarray(x.astype(float)),
                 "freq-list": None, "freq-int": None}
        for dt in (np.int8, np.int16, np.int32, np.int64, np.uint8, np.uint16, np.uint32, np.uint64):
            if x.min() >= np.iinfo(dt).min and x.max() <= np.iinfo(dt).max:
                forms[np.dtype(dt).name] = x.astype(dt)

        def call(sig, frq=fr):
            with warnings.catch_warnings():
                warnings.simplefilter("ignore")
                out = srs.srs(sig, SR, frq, 20, stype=stype, ic=ic, time=tm, getresp=getresp, rolloff=rolloff, parallel="no", ppc=6)
            return [np.asarray(out[0]), np.asarray(out[1]["hist"])] if getresp else [np.asarray(out)]

        base = call(x.astype(float))
        res.ev("forms/%s/%s/%s/%s/%d%d/%s" % (rname, stype, ic, tm, oneD, getresp, rolloff))
        for fn, sig in forms.items():
            frq = fr
            if fn == "freq-list":
                sig, frq = x.astype(float), fr.tolist()
            elif fn == "freq-int":
                sig, frq = x.astype(float), np.array([5, 12, 33])
            snap = None if isinstance(sig, list) else sig.copy()
            fsnap = None if isinstance(frq, list) else frq.copy()
            try:
                got = call(sig, frq)
            except Exception as e:  # noqa
                msgs.append("srs(stype=%s, ic=%s, time=%s, getresp=%s, rolloff=%s) raised %r for input form %s" % (stype, ic, tm, getresp, rolloff, e, fn))
                continue
            if not all(a.shape == b.shape and a.dtype == b.dtype and np.array_equal(a, b) for a, b in zip(got, base)):
                msgs.append("srs(stype=%s, ic=%s, time=%s, getresp=%s, rolloff=%s, %s %s record): input form %s gives a different result than the same values as C-ordered float64"
                            % (stype, ic, tm, getresp, rolloff, "1-D" if oneD else "2-D", rname, fn))
            if (snap is not None and not (sig.dtype == snap.dtype and np.array_equal(sig, snap))) or (fsnap is not None and not np.array_equal(frq, fsnap)):
                msgs.append("srs(stype=%s, ic=%s, time=%s, rolloff=%s) modified the caller's %s input" % (stype, ic, tm, rolloff, fn))
        if len(msgs) > 6:
            break
    return msgs


def check_rolloff(res):
    """resampling triggers iff sr/max(freq) < ppc; srs(sig, rolloff=X) == srs(rollfunc(sig), rolloff='none')"""
    from pyyeti import srs

    msgs = []
    t = np.arange(40)
    sig = np.column_stack((np.sin(0.7 * t) * np.exp(-0.03 * t), np.cos(1.9 * t + 0.3)))
    for roll, ppc, fmax, (tm, stype, ic) in itertools.product(("linear", "lanczos", "fft", "prefilter", "none", "callable"), (4, 12), (10.0, 30.0, 60.0),
                                                             (("primary", "absacce", "zero"), ("total", "relvelo", "shift"), ("residual", "pvelo", "shift"),
                                                              ("residual", "absacce", "zero"))):
      for forder in ("asc", "desc", "max-in-the-middle"):
          # the frequency that decides the resampling is the LARGEST one, wherever it sits in the vector
          freq = {"asc": np.array([fmax / 3, fmax]), "desc": np.array([fmax, fmax / 3]), "max-in-the-middle": np.array([fmax / 3, fmax, fmax / 2])}[forder]
          if forder != "asc" and (tm, stype) != ("primary", "absacce") and (tm, stype) != ("total", "relvelo"):
              continue
          rollfunc = {"linear": srs.linroll, "lanczos": srs.lanroll, "fft": srs.fftroll, "prefilter": srs.preroll, "none": None,
                      "callable": srs.linroll}[roll]
          rarg = srs.linroll if roll == "callable" else roll
          kw = dict(time=tm, stype=stype, ic=ic)
          with warnings.catch_warnings():
              warnings.simplefilter("ignore")
              sh, resp = srs.srs(sig.copy(), SR, freq, 10, rolloff=rarg, ppc=ppc, getresp=True, parallel="no", **kw)
              trig = (SR / fmax < ppc) and rollfunc is not None
              # the ic shift is applied before the roll-off: feed the equivalent pre-processed signal
              s0 = sig.copy()
              base = s0 - s0[0] if ic == "shift" else s0  # the shift is applied before the roll-off
              if roll == "prefilter" or trig:
                  s2, sr2 = rollfunc(base, SR, ppc, fmax)
              else:
                  s2, sr2 = base, SR
              sh2, resp2 = srs.srs(s2, sr2, freq, 10, rolloff="none", getresp=True, parallel="no", **dict(kw, ic="zero"))
          res.ev("rolloff/%s/ppc%d/f%g/%s/%s/%s" % (roll, ppc, fmax, "trig" if trig else "notrig", tm, forder))
          tolr = 0.0
          if resp["sr"] != sr2:
              msgs.append("rolloff=%s ppc=%d freq=%s time=%s: resp['sr']=%s, documented %s (the largest frequency decides)" % (roll, ppc, freq.tolist(), tm, resp["sr"], sr2))
          elif not (sh.shape == sh2.shape and resp["hist"].shape == resp2["hist"].shape and np.array_equal(resp["t"], resp2["t"])
                    and np.abs(sh - sh2).max() <= tolr * max(np.abs(sh2).max(), 1e-300)
                    and np.abs(resp["hist"] - resp2["hist"]).max() <= tolr * max(np.abs(resp2["hist"]).max(), 1e-300)):
              msgs.append("rolloff=%s ppc=%d fmax=%g time=%s stype=%s ic=%s: srs(sig, rolloff) != srs(rolled sig, rolloff='none') (window or history differs)"
                          % (roll, ppc, fmax, tm, stype, ic))
          if trig and roll in ("linear", "lanczos", "fft", "callable"):
              fac = int(math.ceil(ppc / (SR / fmax)))
              if sr2 != SR * fac:
                  msgs.append("rolloff=%s: sample rate multiplied by %g, expected factor %d" % (roll, sr2 / SR, fac))
    return msgs


def check_frf_vrs(res):
    from pyyeti import srs

    msgs = []
    # ---- srs_frf: |frf| * |1 + W^2/(wn^2 - W^2 + i W wn/Q)| maximised over the union frequency grid
    frf_frq = np.array([2.0, 5.0, 9.0, 14.0, 30.0])
    frf = np.column_stack((np.array([1.0, 3.0, 2.0, 0.5, 0.1]) * np.exp(1j * np.arange(5)), np.array([0.2, 0.2, 4.0, 1.0, 1.0])))
    for Q, sfq, getresp, sbq in itertools.product((5, 25), (None, np.array([3.0, 9.0, 20.0])), (False, True), (False, True)):
        if getresp and sbq:
            continue
        with warnings.catch_warnings():
            warnings.simplefilter("ignore")
            out = srs.srs_frf(frf, frf_frq, sfq, Q, getresp=getresp, scale_by_Q_only=sbq)
        res.ev("srs_frf/Q%g/%s/resp%d/sbq%d" % (Q, "auto" if sfq is None else "given", getresp, sbq))
        ppk = Q * math.sqrt(math.sqrt(1 + 2 / Q ** 2) - 1)
        sf = (frf_frq if sbq else frf_frq / ppk) if sfq is None else sfq
        sh = out[0] if isinstance(out, tuple) else out
        if sfq is None and not np.allclose(out[1], sf, rtol=1e-14):
            msgs.append("srs_frf: returned srs_frq wrong")
        if sbq:
            want = np.abs(np.array([[np.interp(f, frf_frq, np.abs(frf[:, c]), left=0, right=0) for c in range(2)] for f in sf])) * Q
        else:
            grid = np.sort(np.hstack((frf_frq, ppk * sf)))
            keep = np.ones(len(grid), bool)
            keep[1:] = np.diff(grid) > 1e-5
            grid = grid[keep]
            want = np.zeros((len(sf), 2))
            for c in range(2):
                a = np.interp(grid, frf_frq, np.abs(frf[:, c]), left=0, right=0)
                W = 2 * np.pi * grid
                for i, fn in enumerate(sf):
                    wn = 2 * np.pi * fn
                    Hh = 1 + W ** 2 / (wn ** 2 - W ** 2 + 1j * W * wn / Q)
                    want[i, c] = np.abs(a * Hh).max()
        if sh.shape != want.shape or not np.abs(sh - want).max() <= 1e-12 * np.abs(want).max():
            msgs.append("srs_frf(Q=%g, srs_frq=%s, scale_by_Q_only=%s) differs from its documented closed form" % (Q, "None" if sfq is None else "given", sbq))
    # ---- vrs and Miles
    spec_f = np.array([20.0, 50.0, 100.0, 400.0, 2000.0])
    spec_p = np.array([0.01, 0.04, 0.04, 0.01, 0.002])
    freq = np.geomspace(20, 2000, 60)
    for Q, linear, Fn, twod in itertools.product((10, 25), (False, True), (None, np.array([35.0, 100.0, 900.0])), (False, True)):
        spec = (spec_f, np.column_stack((spec_p, 2 * spec_p)) if twod else spec_p)
        with warnings.catch_warnings():
            warnings.simplefilter("ignore")
            z, zm, resp = srs.vrs(spec, freq, Q, linear, Fn=Fn, getresp=True)
            z1 = srs.vrs(spec, freq, Q, linear, Fn=Fn)
            z2, zm2 = srs.vrs(spec, freq, Q, linear, Fn=Fn, getmiles=True)
        res.ev("vrs/Q%g/lin%d/%s/2d%d" % (Q, linear, "Fn" if Fn is not None else "noFn", twod))
        fr = freq if Fn is None else np.unique(np.hstack((freq, Fn)))
        fnv = fr if Fn is None else Fn
        P = spec[1] if twod else spec[1][:, None]
        if linear:
            pf = np.column_stack([np.interp(fr, spec_f, P[:, c], left=0, right=0) for c in range(P.shape[1])])
        else:
            pf = np.column_stack([np.exp(np.interp(np.log(fr), np.log(spec_f), np.log(P[:, c]))) for c in range(P.shape[1])])
            pf[(fr < spec_f[0]) | (fr > spec_f[-1])] = 0
        df = np.empty(len(fr))
        df[1:-1] = (fr[2:] - fr[:-2]) / 2
        df[0] = fr[1] - fr[0]
        df[-1] = fr[-1] - fr[-2]
        want = np.zeros((len(fnv), P.shape[1]))
        for i, fn in enumerate(fnv):
            p = fr / fn
            T = (1 + (p / Q) ** 2) / ((1 - p ** 2) ** 2 + (p / Q) ** 2)
            want[i] = np.sqrt((T[:, None] * pf * df[:, None]).sum(axis=0))
        pfn = np.column_stack([np.interp(fnv, fr, pf[:, c]) for c in range(P.shape[1])])
        miles = np.sqrt(np.pi / 2 * fnv[:, None] * Q * pfn)
        if not twod:
            want, miles = want[:, 0], miles[:, 0]
        for nm, g, wv in (("vrs", z, want), ("vrs(no resp)", z1, want), ("vrs(getmiles)", z2, want), ("Miles", zm, miles), ("Miles(getmiles)", zm2, miles)):
            if g.shape != wv.shape or not np.abs(g - wv).max() <= 1e-11 * np.abs(wv).max():
                msgs.append("%s differs from its documented formula (Q=%g, linear=%s, Fn=%s, 2-D=%s)" % (nm, Q, linear, Fn is not None, twod))
        if not np.array_equal(resp["f"], fr):
            msgs.append("vrs resp['f'] wrong")
    return msgs


# ------------------------------------------------------------------ driver
def axes(tier):
    q = tier == "quick"
    ratios = [4.0, 12.5, 2000.0, 0] if q else [4.0, 12.5, 100.0, 2000.0, 0]  # 12.5: non-integer samples per cycle (pad length rounding)
    Qs = [0.7071, 10] if q else [0.51, 0.7071, 10, 50]
    L = 4 if q else 5
    return ratios, Qs, L


CALL_MENU = [  # (stype, ic, Q, frequency set, signal, time, peak)
    ("absacce", "zero", 10.0, 0, 0, "primary", "abs"),
    ("absacce", "zero", 10.0, 1, 0, "primary", "abs"),
    ("absacce", "steady", 10.0, 0, 1, "total", "abs"),
    ("relacce", "shift", 25.0, 1, 1, "primary", "pos"),
    ("pvelo", "steady", 10.0, 2, 0, "residual", "abs"),
    ("reldisp", "mshift", 10.0, 0, 1, "primary", "neg"),
]
_FREQSETS = [np.array([5.0, 12.0, 31.0]), np.array([10.0, 24.0, 62.0]), np.array([7.0, 9.0, 45.0])]


def _menu_sigs():
    k = np.arange(64)
    return [np.sin(0.31 * k) + 0.2 * np.cos(1.3 * k) + 0.5, np.where(k % 7 < 3, 1.0, -0.5) * np.exp(-k / 40.0) + 0.25]


def _menu_call(call, frq, sig):
    from pyyeti import srs

    stype, ic, Q, fi, si, tm, peak = call
    return np.array(srs.srs(sig, 200.0, frq, Q, stype=stype, ic=ic, time=tm, peak=peak, rolloff="none", parallel="no"))


def _menu_first(i):
    call = CALL_MENU[i]
    return _menu_call(call, _FREQSETS[call[3]].copy(), _menu_sigs()[call[4]].copy())


def check_call_history(res, maxlen):
    """K2 over the module: EVERY sequence of up to `maxlen` calls from a menu, made with ONE frequency array and
    ONE signal array that the caller overwrites in place between calls (the documented use of ndarrays); each
    result must be bit-identical to the same call made first in a pristine process"""
    from vf.core import fresh_eval

    msgs = []
    first = [fresh_eval(_menu_first, i) for i in range(len(CALL_MENU))]
    sigs = _menu_sigs()
    for n in range(2, maxlen + 1):
        for seq in itertools.product(range(len(CALL_MENU)), repeat=n):
            frq = np.empty(3)
            sig = np.empty(64)
            res.traces += 1
            for step, i in enumerate(seq):
                call = CALL_MENU[i]
                frq[:] = _FREQSETS[call[3]]
                sig[:] = sigs[call[4]]
                got = _menu_call(call, frq, sig)
                res.transitions += 1
                if not (np.array_equal(frq, _FREQSETS[call[3]]) and np.array_equal(sig, sigs[call[4]])):
                    msgs.append((list(seq), "srs modified its input arrays (call %d of history %s)" % (step + 1, list(seq))))
                    break
                if got.shape != first[i].shape or got.tobytes() != first[i].tobytes():
                    msgs.append((list(seq), "call %d of the history %s (menu entry %s, inputs written in place into reused arrays) returns a different spectrum than the same call made first in a fresh process: max diff %.3g"
                                 % (step + 1, list(seq), (call,), np.abs(got - first[i]).max() if got.shape == first[i].shape else float("nan"))))
                    break
            if len(msgs) > 5:
                return msgs
    res.states += len(CALL_MENU) ** maxlen
    return msgs


def shards(tier, seed):
    ratios, Qs, L = axes(tier)
    out = [dict(part="callhist", maxlen=2 if tier == "quick" else 3, tier=tier)]
    for ratio, Q, stype in itertools.product(ratios, Qs, STYPES):
        out.append(dict(part="hist", ratio=ratio, Q=Q, stype=stype, L=L, tier=tier))
    for ratio in (4.0, 100.0):
        for Q in Qs[:2]:
            out.append(dict(part="inv", ratio=ratio, Q=Q, tier=tier))
    out.append(dict(part="rolloff", tier=tier))
    out.append(dict(part="forms", tier=tier))
    out.append(dict(part="frfvrs", tier=tier))
    r = seed % len(out)
    return out[r:] + out[:r]


def sigsets(L, tier):
    s = {"len%d" % n: signals(n) for n in range(1, L + 1)}
    lr = long_records()
    if tier == "quick":
        lr.pop("long257")
    s.update(lr)
    return s


def run_shard(sh):
    res = Result()
    tier = sh["tier"]
    if sh["part"] == "hist":
        S = sigsets(sh["L"], tier)
        for sname, sig in S.items():
            for ic, time in itertools.product(ICS, TIMES):
                fvs = ("single", "pair", "pair_rev") if sname in ("len3", "long8") else ("single",)
                for fv in fvs:
                    if sh["ratio"] == 0 and ((fv == "single" and time != "primary") or (ic == "steady" and sh["stype"] in ("reldisp", "pvelo"))):
                        # no non-zero frequency defines the one-cycle pad; the steady state of a free mass is undefined
                        res.exit("fn=0: residual/total window or steady-state undefined")
                        continue
                    if sh["ratio"] == 2000.0 and time != "primary" and sig.shape[1] > 300:
                        # one cycle of zero padding = 2000 samples x 1024 columns in long double: use every 4th column
                        sg = sig[:, ::4]
                    else:
                        sg = sig
                    peaks = PEAKS + ("callable",) if sname in ("len2", "len3", "long8") else ("abs",)
                    msgs = check_hist(sg, sh["ratio"], sh["Q"], sh["stype"], ic, time, fv, res, peaks=peaks)
                    res.ev("hist/%s/%s/%s/r%g/Q%g/%s/%s" % (sh["stype"], ic, time, sh["ratio"], sh["Q"], sname, fv), n=sg.shape[1])
                    case = dict(part="hist", ratio=sh["ratio"], Q=sh["Q"], stype=sh["stype"], ic=ic, time=time, sig=sname, fv=fv, L=sh["L"], tier=tier)
                    for m in msgs:
                        res.viol(case, "srs(stype=%s, ic=%s, time=%s, sr/fn=%g, Q=%g): %s" % (sh["stype"], ic, time, sh["ratio"], sh["Q"], m),
                                 kind="hist-" + " ".join(m.split()[:3]))
        res.sample(case)
    elif sh["part"] == "inv":
        sig = signals(3)
        for m in check_invariants(sig, sh["ratio"], sh["Q"], res):
            res.viol(dict(part="inv", ratio=sh["ratio"], Q=sh["Q"], tier=tier), m, kind="inv-" + m.split(":")[-1][:25])
        res.sample(dict(part="inv", ratio=sh["ratio"], Q=sh["Q"]))
    elif sh["part"] == "callhist":
        for seq, m in check_call_history(res, sh["maxlen"]):
            res.viol(dict(part="callhist", maxlen=sh["maxlen"], seq=seq, tier=tier), m, kind="callhist")
        res.ev("callhist", n=0)
        res.sample(dict(sh))
    elif sh["part"] == "forms":
        for m in check_forms(res):
            res.viol(dict(part="forms", tier=tier), m, kind="forms-" + m.split("input form")[-1][:20])
        res.sample(dict(part="forms"))
    elif sh["part"] == "rolloff":
        for m in check_rolloff(res):
            res.viol(dict(part="rolloff", tier=tier), m, kind="roll-" + m.split()[0])
        res.sample(dict(part="rolloff"))
    else:
        for m in check_frf_vrs(res):
            res.viol(dict(part="frfvrs", tier=tier), m, kind="frfvrs-" + m.split()[0])
        res.sample(dict(part="frfvrs"))
    return res


def replay(case):
    res = Result()
    tier = case["tier"]
    if case["part"] == "hist":
        sig = sigsets(case["L"], tier)[case["sig"]]
        if case["ratio"] == 2000.0 and case["time"] != "primary" and sig.shape[1] > 300:
            sig = sig[:, ::4]
        return check_hist(sig, case["ratio"], case["Q"], case["stype"], case["ic"], case["time"], case["fv"], res)
    if case["part"] == "inv":
        return check_invariants(signals(3), case["ratio"], case["Q"], res)
    if case["part"] == "callhist":
        return [m for seq, m in check_call_history(res, case["maxlen"])]
    if case["part"] == "rolloff":
        return check_rolloff(res)
    if case["part"] == "forms":
        return check_forms(res)
    return check_frf_vrs(res)
