"""C07 - matrix exponential, its integrals, getEPQ variants and the SSModel
discretisations built on them.  K1 grid over matrix structures x ||Ah||_1 on
both sides of every algorithm switch x h x order x B x half x function, against
R1 (mpmath expm of the Van Loan augmented matrix, 50 digits)."""
import itertools
import math
import warnings

import numpy as np

import vf.core  # noqa
from vf.core import Result

PROP = "C07"
LEVEL = "model_checking"
RULE = (
    "full product of matrix structures {zero, nilpotent, Jordan, upper-triangular, singular symmetric, skew(odd), "
    "stiff diag, damped oscillator, dense 3x3, 4x4 second-order state matrix} x ||Ah||_1 in {1e-6 .. 1e3} placed on both "
    "sides of the Pade-3/5/7/9/13 and getEPQ switches x h in {1e-3,1,7} x order {0,1} x B {None,nx1,nx2} x half x "
    "function {expmint(geti2 F/T), expmint_pow, getEPQ, getEPQ1, getEPQ2, getEPQ_pow}; reference = 50-digit expm of "
    "the augmented matrix giving E, int exp(At), int t exp(At); SSModel: methods {zoh,zoha,foh,tustin,tustin+prewarp} x "
    "systems x h: d2c(c2d(S))==S, sampled response == exact held-input response, tustin == bilinear substitution on the "
    "unit circle.  signature = structure / Pade branch actually taken (recorded by wrapping the helper) / function / options"
)
ASSUMPTIONS = [
    "normwise (max-abs) relative error per returned matrix; tolerance 2e3*eps*max(1,||Ah||_1) (calibrated >=100x margin "
    "on well-conditioned cells); structures with positive real eigenvalues are capped at ||Ah|| <= 50 (overflow otherwise)",
    "getEPQ_pow / expmint_pow: documented RuntimeError (maximum loops) is a domain exit; they are power series and are "
    "only required to agree inside their convergence radius ||Ah|| <= 4.3",
]
EPS = 2.220446049250313e-16
_BRANCH = []


def bounds(tier):
    return {"quick": "norm ladder 9 points, h in {1e-3,1}", "thorough": "norm ladder 16 points, h in {1e-3,1,7}"}.get(tier, "")


def structures():
    z = 0.1
    return {
        "zero": np.zeros((2, 2)),
        "nilpotent": np.array([[0.0, 1.0], [0.0, 0.0]]),
        "jordan": np.array([[-1.0, 1.0], [0.0, -1.0]]),
        "uptri": np.array([[-1.0, 2.0, -0.5], [0.0, -0.3, 1.0], [0.0, 0.0, -2.0]]),
        "singsym": np.array([[-1.0, 1.0], [1.0, -1.0]]),
        "skew3": np.array([[0.0, 1.0, -2.0], [-1.0, 0.0, 0.5], [2.0, -0.5, 0.0]]),
        "stiff": np.diag([-1.0, -1.0e4]),
        "oscill": np.array([[-2 * z, -1.0], [1.0, 0.0]]),
        "dense3": np.array([[1.0, 2.0, 3.0], [4.0, 5.0, 6.0], [7.0, 8.0, 9.0]]) / 10.0,
        "so4": np.array([[-0.4, 0.1, -3.0, 1.0], [0.1, -0.6, 1.0, -5.0], [1.0, 0, 0, 0], [0, 1.0, 0, 0]]),
        # strongly non-normal / sign-indefinite: |A|^k grows much faster than A^k (exercises the extra-scaling estimate)
        "nonnormal": np.array([[1.0, 1.000244140625], [-1.0, -1.0]]),
        "indef4": np.array([[0.9, -1.3, 0.4, 1.1], [1.2, -0.7, -1.5, 0.3], [-0.6, 1.4, -0.8, -1.0], [-1.1, -0.2, 1.3, -0.6]]),
        "rot_growth": np.array([[0.0, 30.0, 0.0], [-30.0, 0.0, 1.0], [0.0, 0.0, -0.5]]) / 30.0,
        # lower triangular (cascade of lags), and singular matrices without a positive entry (integrator next to lags,
        # rank-one decay): sign structure and triangular orientation are visible to norm/peak shortcuts
        "lowtri": np.array([[-1.0, 0.0, 0.0], [2.0, -0.3, 0.0], [-0.5, 1.0, -2.0]]),
        "rbdecay": np.diag([0.0, -1.0, -2.5]),
        "lowsing": np.array([[0.0, 0.0], [-2.0, -3.0]]),
        "negones": -np.ones((3, 3)),
        "posones": np.ones((3, 3)) - 2.0 * np.eye(3),
    }


GROWING = {"dense3", "indef4"}  # positive real eigenvalue: cap the norm
SINGULAR = {"zero", "nilpotent", "singsym", "skew3", "nonnormal", "rbdecay", "lowsing", "negones", "posones"}  # (nonnormal: eigenvalues +-0.0156i, cond ~ 8e3: nearly singular)


def norms(tier):
    full = [1e-6, 1e-3, 0.0149, 0.0151, 0.1, 0.25, 0.26, 0.94, 0.96, 1.5, 2.09, 2.11, 4.2, 4.3, 12.8, 50.0, 200.0, 1e3]
    if tier == "quick":
        return [1e-6, 0.0149, 0.0151, 0.26, 0.96, 2.09, 2.11, 4.3, 12.8, 50.0]
    return full


def hs(tier):
    # (steps above 1 separate ||A||_1 from ||A*h||_1 in the algorithm switches)
    return [1e-3, 1.0, 2.0] if tier == "quick" else [1e-3, 1.0, 2.0, 7.0]


_REF = {}


def reference(A, h):
    """E, I1, I2 as float arrays from a 50-digit Van Loan exponential"""
    import mpmath as mp

    key = (A.tobytes(), A.shape, h)
    if key in _REF:
        return _REF[key]
    n = A.shape[0]
    with mp.workdps(50):
        Z = mp.matrix(3 * n, 3 * n)
        hh = mp.mpf(h)
        for i in range(n):
            for j in range(n):
                Z[i, j] = mp.mpf(float(A[i, j])) * hh
            Z[i, n + i] = hh
            Z[n + i, 2 * n + i] = hh
        X = mp.expm(Z)
        E = np.array([[float(X[i, j]) for j in range(n)] for i in range(n)])
        G1 = [[X[i, n + j] for j in range(n)] for i in range(n)]
        G2 = [[X[i, 2 * n + j] for j in range(n)] for i in range(n)]
        I1 = np.array([[float(G1[i][j]) for j in range(n)] for i in range(n)])
        I2 = np.array([[float(hh * G1[i][j] - G2[i][j]) for j in range(n)] for i in range(n)])
    if len(_REF) > 3000:
        _REF.clear()
    _REF[key] = (E, I1, I2)
    return _REF[key]


def relerr(X, Xr):
    X = np.asarray(X, dtype=float)
    if X.shape != Xr.shape:
        return float("inf")
    s = np.abs(Xr).max()
    if s == 0:
        return float(np.abs(X).max())
    return float(np.abs(X - Xr).max() / s)


def install_branch_recorder():
    from pyyeti import expmint as em

    H = em._ExpmIntPadeHelper
    if getattr(H, "_vf_wrapped", False):
        return
    for name in ("pade3_i", "pade5_i", "pade7_i", "pade9_i", "pade13_scaled_i"):
        orig = getattr(H, name)

        def wrap(self, *a, _o=orig, _n=name):
            _BRANCH.append(_n)
            return _o(self, *a)

        setattr(H, name, wrap)
    H._vf_wrapped = True


def check_matrix(sname, S, target, h, tier, res):
    """all functions/options on one (A, h); returns list of (case-extra, msg)"""
    from pyyeti import expmint as em

    out = []
    s = np.abs(S).sum(axis=0).max()
    A = S * (target / (s * h)) if s > 0 else S.copy()
    nrm = float(np.abs(A * h).sum(axis=0).max())
    n = A.shape[0]
    E, I1, I2 = reference(A, h)
    tol = 2e3 * EPS * max(1.0, nrm)
    singular_big = sname in SINGULAR and nrm > 2.097847961257068

    def chk(tag, got, want, kindtag, tolx=None):
        e = relerr(got, want)
        t = tolx or tol
        res.err("relerr/" + tag.split("(")[0], e / t)
        if not e <= t:
            out.append((tag, "%s: %s differs from the exact value: rel err %.3g > tol %.3g (||Ah||_1=%.4g)" % (tag, kindtag, e, t, nrm)))

    # expmint
    del _BRANCH[:]
    try:
        e1, i1 = em.expmint(A, h)
        br = _BRANCH[-1] if _BRANCH else "none"
        chk("expmint", e1, E, "E")
        chk("expmint", i1, I1, "integral of exp(At)")
    except Exception as ex:  # noqa
        br = "raised"
        out.append(("expmint", "expmint raised %r" % (ex,)))
    try:
        e2, i2, j2 = em.expmint(A, h, True)
        chk("expmint(geti2)", e2, E, "E")
        chk("expmint(geti2)", i2, I1, "integral of exp(At)")
        chk("expmint(geti2)", j2, I2, "integral of t*exp(At)")
    except RuntimeError as ex:
        if "maximum loops" in str(ex):
            res.exit("power-series fallback: maximum loops exceeded")
        else:
            out.append(("expmint(geti2)", "expmint(geti2=True) raised %r" % (ex,)))
    except Exception as ex:  # noqa
        out.append(("expmint(geti2)", "expmint(geti2=True) raised %r" % (ex,)))
    inpow = nrm <= 4.3
    if inpow:
        try:
            ep, ip, jp = em.expmint_pow(A, h)
            chk("expmint_pow", ep, E, "E")
            chk("expmint_pow", ip, I1, "integral of exp(At)")
            chk("expmint_pow", jp, I2, "integral of t*exp(At)")
        except Exception as ex:  # noqa
            out.append(("expmint_pow", "expmint_pow raised %r" % (ex,)))
    # getEPQ family
    Bs = {"None": None, "nx1": (np.arange(1, n + 1, dtype=float) / n).reshape(n, 1) * np.array([[1.0]]),
          "nx2": np.column_stack((np.ones(n), np.arange(n) - 0.5))}
    funcs = {"getEPQ": em.getEPQ, "getEPQ1": em.getEPQ1, "getEPQ2": em.getEPQ2}
    if inpow:
        funcs["getEPQ_pow"] = em.getEPQ_pow
    for fname, fn in funcs.items():
        for order, (bname, B), half in itertools.product((0, 1), Bs.items(), (False, True)):
            if half and (n % 2 or B is not None) and not (n % 2 == 0):
                continue
            tag = "%s(o%d,B=%s,half=%d)" % (fname, order, bname, half)
            Pw = (I2 / h) if order == 1 else I1
            Qw = (I1 - I2 / h) if order == 1 else None
            if B is not None:
                Pw = Pw @ B
                Qw = None if Qw is None else Qw @ B
            elif half:
                Pw = Pw[:, : n // 2]
                Qw = None if Qw is None else Qw[:, : n // 2]
            try:
                Eg, Pg, Qg = fn(A, h, order=order, B=None if B is None else B.copy(), half=half)
            except RuntimeError as ex:
                if "maximum loops" in str(ex):
                    res.exit("power-series fallback: maximum loops exceeded")
                else:
                    out.append((tag, "%s raised %r" % (tag, ex)))
                continue
            except Exception as ex:  # noqa
                out.append((tag, "%s raised %r" % (tag, ex)))
                continue
            scale_tol = tol * max(1.0, np.abs(I1).max() / max(np.abs(Pw).max(), 1e-300)) if B is not None else tol
            chk(tag, Eg, E, "E")
            chk(tag, Pg, Pw, "P", min(scale_tol, 1e-6) if scale_tol > tol else tol)
            if order == 1:
                chk(tag, Qg, Qw, "Q", min(scale_tol, 1e-6) if scale_tol > tol else tol)
            elif not (np.isscalar(Qg) and Qg == 0.0):
                out.append((tag, "%s: Q must be 0.0 for order 0" % tag))
            # one step of y' = Ay + Bu under the hold
            if order == 1 and B is not None:
                y0 = np.linspace(1.0, -1.0, n)
                u0 = np.array([1.0, -0.5])[: B.shape[1]]
                u1 = np.array([0.25, 2.0])[: B.shape[1]]
                if np.shape(Pg) != Pw.shape or np.shape(Qg) != Qw.shape or np.shape(Eg) != E.shape:
                    continue  # already reported by the shape comparison above
                got = Eg @ y0 + Pg @ u0 + Qg @ u1
                want = E @ y0 + Pw @ u0 + Qw @ u1
                sc = max(np.abs(E @ y0).max(), np.abs(Pw).max() * 2, 1e-300)
                if not np.abs(got - want).max() <= 10 * tol * sc:
                    out.append((tag, "%s: one step under first-order hold is not reproduced" % tag))
    sig = "%s/%s/n%s" % (sname, br, "lt2.1" if nrm <= 2.097847961257068 else "gt2.1")
    return out, sig, nrm, singular_big


# ------------------------------------------------------------------ SSModel
def ss_systems():
    A1 = np.array([[-0.4, -9.0], [1.0, 0.0]])
    B1 = np.array([[1.0], [0.0]])
    C1 = np.array([[0.0, 1.0], [1.0, 0.5]])
    D1 = np.array([[0.0], [0.2]])
    A2 = np.array([[-1.0, 0.5, 0.0], [-0.5, -0.2, 2.0], [0.0, -2.0, -0.7]])
    B2 = np.array([[1.0, 0.0], [0.5, -1.0], [0.0, 2.0]])
    C2 = np.array([[1.0, 0.0, -1.0]])
    D2 = np.array([[0.3, 0.0]])
    A3 = np.array([[-2.0]])
    return {"osc2": (A1, B1, C1, D1), "mimo3": (A2, B2, C2, D2), "first1": (A3, np.array([[1.5]]), np.array([[2.0]]), np.array([[0.0]]))}


def exact_sampled(A, B, C, D, h, U, order, avg=False):
    from vf.ref import ode_ref

    n = A.shape[0]
    if avg:
        Ua = U.copy()
        Ua[:, :-1] = (U[:, :-1] + U[:, 1:]) / 2
        X = ode_ref.first_order_response(A, B, h, Ua, np.zeros(n), 0, dps=40)
    else:
        X = ode_ref.first_order_response(A, B, h, U, np.zeros(n), order, dps=40)
    return C @ X + D @ U


def check_ss(sysname, h, method, prewarp, res):
    from pyyeti.ssmodel import SSModel

    out = []
    A, B, C, D = ss_systems()[sysname]
    S = SSModel(A, B, C, D)
    kw = dict(method=method)
    if method == "tustin":
        kw["prewarp"] = prewarp
    try:
        Sd = S.c2d(h, **kw)
        Sc = Sd.d2c(**kw)
    except Exception as ex:  # noqa
        return [("ss", "SSModel c2d/d2c(%s) raised %r" % (method, ex))]
    lam = np.linalg.eigvals(A)
    cond = np.linalg.cond(np.linalg.eig(A)[1])
    tol = 1e4 * EPS * cond * max(1.0, np.abs(lam).max() * h) * max(1.0, 1.0 / (np.abs(lam).min() * h))
    for nm, X, Y in (("A", Sc.A, A), ("B", Sc.B, B), ("C", Sc.C, C), ("D", Sc.D, D)):
        sc = max(np.abs(Y).max(), np.abs(B).max() if nm == "D" else 0.0, 1e-300)
        e = np.abs(np.asarray(X) - Y).max() / sc
        res.err("ss/roundtrip", e / tol)
        if not e <= tol:
            out.append(("ss", "d2c(c2d(S)) != S for method %s (matrix %s, rel err %.3g > %.3g)" % (method, nm, e, tol)))
    if Sd.h != h or Sd.method != method:
        out.append(("ss", "c2d does not record h/method"))
    m = B.shape[1]
    nt = 7
    U = np.array([[1.0, -1.0, 0.5, 2.0, 0.0, -1.5, 1.0], [0.0, 2.0, -1.0, 0.5, 1.0, 1.0, -2.0]])[:m]
    if method in ("zoh", "foh", "zoha"):
        x = np.zeros(A.shape[0])
        Y = np.zeros((C.shape[0], nt))
        if method in ("foh", "zoha"):
            # state is shifted by Q u: start from rest means z0 = -Q u0 ; simulate with x0 = 0 via z0 = x0 - Q u0
            pass
        # generic: discrete simulation from the discrete model's own rest state, inputs starting at u[0]
        # the continuous system starts at rest x(0)=0: for foh/zoha z0 = -Qeff u0 where D_d = C Qeff + D
        # recover z0 from the relation D_d - D = C Qeff is not unique; instead drive with u[0] = 0
        U0 = U.copy()
        U0[:, 0] = 0.0
        z = np.zeros(A.shape[0])
        for k in range(nt):
            Y[:, k] = Sd.C @ z + Sd.D @ U0[:, k]
            z = Sd.A @ z + Sd.B @ U0[:, k]
        want = exact_sampled(A, B, C, D, h, U0, 1 if method == "foh" else 0, avg=(method == "zoha"))
        sc = max(np.abs(want).max(), 1e-300)
        e = np.abs(Y - want).max() / sc
        res.err("ss/sampled-" + method, e / tol)
        if not e <= tol:
            out.append(("ss", "%s discrete model does not reproduce the exactly sampled response (rel err %.3g > %.3g)" % (method, e, tol)))
    else:
        k = 2 / h if not prewarp else prewarp / math.tan(prewarp * h / 2)
        n = A.shape[0]
        for th in (0.1, 0.7, 1.9, 2.8):
            zz = np.exp(1j * th)
            s = k * (zz - 1) / (zz + 1)
            Hc = C @ np.linalg.solve(s * np.eye(n) - A, B) + D
            Hd = Sd.C @ np.linalg.solve(zz * np.eye(n) - Sd.A, Sd.B) + Sd.D
            e = np.abs(Hc - Hd).max() / max(np.abs(Hc).max(), 1e-300)
            res.err("ss/tustin", e / tol)
            if not e <= tol:
                out.append(("ss", "tustin model is not the bilinear transform of the transfer function at z=exp(%gj): rel err %.3g" % (th, e)))
        if prewarp:
            s = 1j * prewarp
            zz = np.exp(1j * prewarp * h)
            Hc = C @ np.linalg.solve(s * np.eye(n) - A, B) + D
            Hd = Sd.C @ np.linalg.solve(zz * np.eye(n) - Sd.A, Sd.B) + Sd.D
            e = np.abs(Hc - Hd).max() / max(np.abs(Hc).max(), 1e-300)
            if not e <= tol:
                out.append(("ss", "prewarped tustin does not match the continuous response at the prewarp frequency: rel err %.3g" % e))
    return out


# ------------------------------------------------------------------ driver
def check_ss_history(sysname, res, maxlen):
    """K2 over one SSModel instance: EVERY sequence of up to `maxlen` c2d calls over (method, h) on one object;
    every result must equal the same call on a fresh object, and the object's own matrices must not change"""
    from pyyeti.ssmodel import SSModel

    out = []
    A, B, C, D = ss_systems()[sysname]
    menu = [(m, h) for m in ("zoh", "zoha", "foh", "tustin") for h in (0.05, 0.3)]
    fresh = {}
    for ev in menu:
        Sd = SSModel(A.copy(), B.copy(), C.copy(), D.copy()).c2d(ev[1], method=ev[0])
        fresh[ev] = [np.array(x) for x in (Sd.A, Sd.B, Sd.C, Sd.D)]
    for n in range(1, maxlen + 1):
        for seq in itertools.product(range(len(menu)), repeat=n):
            S = SSModel(A.copy(), B.copy(), C.copy(), D.copy())
            kept = []
            res.traces += 1
            for step, k in enumerate(seq):
                ev = menu[k]
                Sd = S.c2d(ev[1], method=ev[0])
                res.transitions += 1
                kept.append((ev, Sd))
                bad = [nm for nm, X, Y in zip("ABCD", (Sd.A, Sd.B, Sd.C, Sd.D), fresh[ev]) if not np.array_equal(np.asarray(X), Y)]
                if bad:
                    out.append(("ss-hist", "call %d of the history %s on one SSModel object: c2d(%g, %r) returns a different %s than the same call on a fresh object" % (step + 1, [menu[j] for j in seq], ev[1], ev[0], "/".join(bad)), list(seq)))
                    break
                if not (np.array_equal(S.A, A) and np.array_equal(S.B, B) and np.array_equal(S.C, C) and np.array_equal(S.D, D)):
                    out.append(("ss-hist", "c2d modified the continuous model (history %s)" % [menu[j] for j in seq], list(seq)))
                    break
            else:
                # results returned earlier in the history are still intact at its end
                for ev, Sd in kept:
                    if any(not np.array_equal(np.asarray(X), Y) for X, Y in zip((Sd.A, Sd.B, Sd.C, Sd.D), fresh[ev])):
                        out.append(("ss-hist", "a discrete model returned earlier in the history %s was changed by a later call" % [menu[j] for j in seq], list(seq)))
                        break
            if len(out) > 5:
                return out
    res.states += len(menu) ** maxlen
    return out


def _ss_same(X, Y, tol=1e-7):
    X, Y = np.asarray(X, float), np.asarray(Y, float)
    return X.shape == Y.shape and np.abs(X - Y).max() <= tol * max(1.0, np.abs(Y).max())


def check_ss_chain(sysname, res):
    """K2 over conversion chains: EVERY chain c2d(m1,h1) -> d2c(m1) -> c2d(m2,h2) -> d2c(m2) over the method/step menu
    (also entered from a discrete model built directly from matrices); every intermediate model must be the model the
    same conversion gives on a fresh object holding the true matrices, continuous results carry no step (h None),
    discrete ones the step asked for, and getlti() of every model in the chain is the continuous system"""
    from pyyeti.ssmodel import SSModel

    out = []
    A, B, C, D = ss_systems()[sysname]
    menu = [(m, h, 0) for m in ("zoh", "zoha", "foh", "tustin") for h in (0.05, 0.3)] + [("tustin", 0.05, 3.0)]

    def kw(m, pw):
        return dict(method=m, prewarp=pw) if m == "tustin" else dict(method=m)

    def fresh_d(m, h, pw):
        return SSModel(A.copy(), B.copy(), C.copy(), D.copy()).c2d(h, **kw(m, pw))

    def lti_ok(S):
        L = S.getlti()
        return all(_ss_same(X, Y) for X, Y in zip((L.A, L.B, L.C, L.D), (A, B, C, D)))

    for (m1, h1, p1), (m2, h2, p2), entry in itertools.product(menu, menu, ("c2d", "direct")):
        chain = [entry, [m1, h1, p1], [m2, h2, p2]]
        res.traces += 1
        try:
            F1 = fresh_d(m1, h1, p1)
            if entry == "c2d":
                S1 = SSModel(A.copy(), B.copy(), C.copy(), D.copy()).c2d(h1, **kw(m1, p1))
            else:  # a discrete model handed over as matrices
                S1 = SSModel(F1.A.copy(), F1.B.copy(), F1.C.copy(), F1.D.copy(), h=h1, method=m1, prewarp=p1 or None)
            steps = [("c2d#1", S1, F1, h1)]
            Sc = S1.d2c(**kw(m1, p1))
            steps.append(("d2c#1", Sc, None, None))
            S2 = Sc.c2d(h2, **kw(m2, p2))
            steps.append(("c2d#2", S2, fresh_d(m2, h2, p2), h2))
            Sc2 = S2.d2c(**kw(m2, p2))
            steps.append(("d2c#2", Sc2, None, None))
            res.transitions += 4
            for nm, S, F, h in steps:
                if F is None:
                    if S.h is not None:
                        out.append(("ss-chain", "%s in the chain %s: a continuous model reports the time step h=%r" % (nm, chain, S.h), chain))
                    if not all(_ss_same(X, Y) for X, Y in zip((S.A, S.B, S.C, S.D), (A, B, C, D))):
                        out.append(("ss-chain", "%s in the chain %s does not recover the continuous system" % (nm, chain), chain))
                else:
                    if S.h != h:
                        out.append(("ss-chain", "%s in the chain %s: discrete model reports h=%r, asked for %r" % (nm, chain, S.h, h), chain))
                    if not all(_ss_same(X, Y) for X, Y in zip((S.A, S.B, S.C, S.D), (F.A, F.B, F.C, F.D))):
                        out.append(("ss-chain", "%s in the chain %s differs from the same conversion of a fresh continuous model" % (nm, chain), chain))
                if (F is None or S.method == "foh") and not lti_ok(S):
                    # getlti() converts a discrete model with d2c defaults (foh): defined for foh models and continuous ones
                    out.append(("ss-chain", "%s in the chain %s: getlti() is not the continuous system" % (nm, chain), chain))
        except Exception as ex:  # noqa
            out.append(("ss-chain", "the chain %s raised %r" % (chain, ex), chain))
        if len(out) > 6:
            break
    res.states += 4 * len(menu) ** 2 * 2
    return out


def check_int_forms(res):
    """integer-valued A handed over as an integer array, the step as a Python int, B with non-integer values (and in
    integer / Fortran / list forms): every function gives the result of the float64 call"""
    from pyyeti import expmint as em
    from pyyeti.ssmodel import SSModel

    out = []
    mats = {"jordan": [[-1, 1], [0, -1]], "singsym": [[-1, 1], [1, -1]], "lowsing": [[0, 0], [-2, -3]], "osc": [[0, -4], [1, -1]],
            "tri3": [[-1, 2, 0], [0, -1, 1], [0, 0, -2]]}
    for mname, rows in mats.items():
        Af = np.array(rows, dtype=float)
        n = Af.shape[0]
        Bf = np.column_stack((np.linspace(0.5, 1.75, n), np.linspace(-0.3, 0.9, n)))
        for hv in (1, 2, 3):
            for fname_, fn in (("getEPQ", em.getEPQ), ("getEPQ1", em.getEPQ1), ("getEPQ2", em.getEPQ2)):
                for order, bmode in itertools.product((0, 1), ("none", "float")):
                    kw = dict(order=order) if bmode == "none" else dict(order=order, B=Bf.copy())
                    try:
                        with warnings.catch_warnings():
                            warnings.simplefilter("ignore")
                            base = fn(Af.copy(), float(hv), **kw)
                    except Exception:  # noqa  (documented refusals are decided by the main grid)
                        continue
                    forms = {"A int64, h int": (np.array(rows, dtype=np.int64), hv), "A int32, h float": (np.array(rows, dtype=np.int32), float(hv)),
                             "A float, h int": (Af.copy(), hv), "A Fortran, h int": (np.asfortranarray(Af), hv)}
                    for form, (A_, h_) in forms.items():
                        res.ev("intforms/%s/%s/o%d/B%s" % (fname_, form.split(",")[0], order, bmode))
                        try:
                            with warnings.catch_warnings():
                                warnings.simplefilter("ignore")
                                got = fn(A_, h_, **kw)
                        except Exception as e:  # noqa
                            out.append(("intforms", "%s(%s as %s, h=%r, order=%d, B=%s) raised %r" % (fname_, mname, form, h_, order, bmode, e)))
                            continue
                        for nm, g, b_ in zip("EPQ", got, base):
                            g, b_ = np.asarray(g, float), np.asarray(b_, float)
                            if g.shape != b_.shape or not np.allclose(g, b_, rtol=1e-13, atol=1e-15 * max(1.0, np.abs(b_).max(initial=0))):
                                out.append(("intforms", "%s(%s given as %s, order=%d, B=%s): %s differs from the float64 call (max diff %.3g)"
                                            % (fname_, mname, form, order, bmode, nm, float(np.abs(g - b_).max()) if g.shape == b_.shape else float("nan"))))
                                break
            # expmint and SSModel.c2d with the same forms
            for form, (A_, h_) in {"A int64, h int": (np.array(rows, dtype=np.int64), hv), "A float, h int": (Af.copy(), hv)}.items():
                try:
                    with warnings.catch_warnings():
                        warnings.simplefilter("ignore")
                        b3 = em.expmint(Af.copy(), float(hv), True)
                        g3 = em.expmint(A_, h_, True)
                        ok = all(np.allclose(x, y, rtol=1e-13, atol=1e-300) for x, y in zip(g3, b3))
                    if not ok:
                        out.append(("intforms", "expmint(%s given as %s) differs from the float64 call" % (mname, form)))
                    C = np.eye(n)[:1]
                    D = np.zeros((1, 2))
                    for meth in ("zoh", "foh", "tustin"):
                        with warnings.catch_warnings():
                            warnings.simplefilter("ignore")
                            sb = SSModel(Af.copy(), Bf.copy(), C, D).c2d(float(hv), method=meth)
                            sg = SSModel(A_, Bf.copy(), C, D).c2d(h_, method=meth)
                        if not all(np.allclose(np.asarray(x, float), np.asarray(y, float), rtol=1e-12, atol=1e-14) for x, y in zip((sg.A, sg.B, sg.C, sg.D), (sb.A, sb.B, sb.C, sb.D))):
                            out.append(("intforms", "SSModel(%s given as %s).c2d(%r, %r) differs from the float64 model" % (mname, form, h_, meth)))
                except Exception as e:  # noqa
                    out.append(("intforms", "expmint / c2d with %s given as %s raised %r" % (mname, form, e)))
    return out


def shards(tier, seed):
    out = [dict(part="intforms", tier=tier)]
    for sysname in ("osc2", "mimo3", "first1"):
        out.append(dict(part="ss-chain", sys=sysname, tier=tier))
    for sysname in ("osc2", "mimo3", "first1"):
        out.append(dict(part="ss-hist", sys=sysname, maxlen=2 if tier == "quick" else 3, tier=tier))
    for sname in structures():
        for target in norms(tier):
            out.append(dict(part="mat", s=sname, target=target, tier=tier))
    out.append(dict(part="ss", tier=tier))
    r = seed % len(out)
    return out[r:] + out[:r]


def setup(tier, seed):
    install_branch_recorder()


def _affected_fn(case):
    fn = case.get("fn", "")
    return fn.startswith("expmint(geti2)") or fn.startswith("getEPQ1(o1")


def _relerr_of(msg):
    import re

    m = re.search(r"rel err ([0-9.eE+-]+|inf|nan)", msg)
    return float(m.group(1)) if m else None


def _m_singular(case, msg):
    """singular A, ||Ah||_1 above the getEPQ switch, second integral requested from the Pade-13 route
    (expmint(geti2=True) / getEPQ1(order=1)): the power-series fallback cancels catastrophically"""
    if not (case.get("part") == "mat" and case.get("s") in SINGULAR and bool(case.get("singular_big")) and _affected_fn(case)):
        return False
    # the finding is a loss of digits by cancellation in sum (Ah)^k/(k+2)!: the error is bounded by eps*exp(||Ah||_1)
    # (observed <= 1e-2 of that); for the nearly singular member the LU route loses eps*cond(A)^2 instead.  Anything
    # larger is a different defect and is reported.
    S = structures()[case["s"]]
    A = S * (case["target"] / (np.abs(S).sum(axis=0).max() * case["h"]))
    nrm = float(np.abs(A * case["h"]).sum(axis=0).max())
    bound = EPS * math.exp(min(nrm, 700.0))
    c = np.linalg.cond(A)
    if np.isfinite(c) and c < 1e7:
        bound = max(bound, 10 * EPS * c * c)
    e = _relerr_of(msg)
    return ("one step" in msg and bound > 1e-12) or (e is not None and e <= bound)


def _m_stiff(case, msg):
    """non-singular stiff A above the switch: I2 from the LU route loses about eps*cond(A)^2 digits"""
    if not (case.get("part") == "mat" and case.get("s") not in SINGULAR and _affected_fn(case)):
        return False
    S = structures()[case["s"]]
    A = S * (case["target"] / (np.abs(S).sum(axis=0).max() * case["h"]))
    if np.abs(A * case["h"]).sum(axis=0).max() <= 2.097847961257068:
        return False
    e = _relerr_of(msg)
    bound = 10 * EPS * np.linalg.cond(A) ** 2
    return ("one step" in msg and bound > 1e-12) or (e is not None and e <= bound)


FINDING_MATCHERS = {"C07-geti2-singular-fallback": _m_singular, "C07-geti2-stiff-inverse": _m_stiff}


def run_shard(sh):
    res = Result()
    install_branch_recorder()
    tier = sh["tier"]
    if sh["part"] == "mat":
        S = structures()[sh["s"]]
        if sh["s"] in GROWING and sh["target"] > 50:
            res.exit("growing spectrum capped at ||Ah||<=50")
            return res
        if sh["s"] == "zero" and sh["target"] != norms(tier)[0]:
            return res
        for h in hs(tier):
            out, sig, nrm, sb = check_matrix(sh["s"], S, sh["target"], h, tier, res)
            res.ev(sig, outcome="%s/%g/%g" % (sh["s"], sh["target"], h))
            for tag, msg in out:
                res.viol({"part": "mat", "s": sh["s"], "target": sh["target"], "h": h, "tier": tier, "fn": tag, "singular_big": bool(sb)},
                         msg, kind=("SB-" if sb else "") + tag.split("(")[0] + "-" + msg.split(":")[-2].strip()[:20] if ":" in msg else tag)
        res.sample({"part": "mat", "structure": sh["s"], "norm_Ah": sh["target"], "h": h, "signature": sig})
    elif sh["part"] == "intforms":
        for tag, msg in check_int_forms(res):
            res.viol({"part": "intforms"}, msg, kind="intforms-" + msg.split("(")[0])
        res.sample(dict(sh))
    elif sh["part"] == "ss-chain":
        for tag, msg, chain in check_ss_chain(sh["sys"], res):
            res.viol({"part": "ss-chain", "sys": sh["sys"], "chain": chain}, msg, kind="ss-chain-" + msg.split(":")[-1][:30])
        res.ev("ss-chain/%s" % sh["sys"], n=0)
        res.sample(dict(sh))
    elif sh["part"] == "ss-hist":
        for tag, msg, seq in check_ss_history(sh["sys"], res, sh["maxlen"]):
            res.viol({"part": "ss-hist", "sys": sh["sys"], "maxlen": sh["maxlen"], "seq": seq}, msg, kind="ss-hist-" + msg.split(":")[-1][:30])
        res.ev("ss-history/%s" % sh["sys"], n=0)
        res.sample(dict(sh))
    else:
        for sysname, method in itertools.product(ss_systems(), ("zoh", "zoha", "foh", "tustin")):
            for h in ([0.05, 0.3] if tier == "quick" else [0.01, 0.05, 0.3, 0.9]):
                for pw in ((0, 0.5, 3.0) if method == "tustin" else (0,)):
                    out = check_ss(sysname, h, method, pw, res)
                    res.ev("ss/%s/%s/pw%g" % (sysname, method, pw), outcome="%s%g" % (sysname, h))
                    for tag, msg in out:
                        res.viol({"part": "ss", "sys": sysname, "h": h, "method": method, "prewarp": pw, "tier": tier}, msg,
                                 kind="ss-" + method + "-" + msg.split()[0])
        res.sample({"part": "ss", "sys": sysname, "h": h, "method": method})
    return res


def replay(case):
    res = Result()
    install_branch_recorder()
    if case["part"] == "mat":
        out, _, _, _ = check_matrix(case["s"], structures()[case["s"]], case["target"], case["h"], case["tier"], res)
        return [m for t, m in out if t == case.get("fn", t)] or [m for t, m in out]
    if case["part"] == "intforms":
        return [m for t, m in check_int_forms(res)]
    if case["part"] == "ss-chain":
        from vf.core import jsame
        return [m for t, m, ch in check_ss_chain(case["sys"], res) if jsame(ch, case["chain"])]
    if case["part"] == "ss-hist":
        return [m for t, m, seq in check_ss_history(case["sys"], res, case["maxlen"]) if seq == case.get("seq", seq)]
    return [m for t, m in check_ss(case["sys"], case["h"], case["method"], case["prewarp"], res)]
