"""C20 - tolerance-limit factors and order statistics meet their definitions
(K1 grid over (p, c, n, r); oracles R1: independent mpmath quadrature of the
defining integrals, exact binomial tails)."""
import itertools
import warnings

import numpy as np

from vf.core import Result

PROP = "C20"
LEVEL = "model_checking"
RULE = (
    "full product p x c over {.01,.1,.5,.75,.9,.95,.99,.999}^2 x n (every integer 2..60 in thorough, 13 values in "
    "quick, plus 100, 1e3, 1e4, 1e6) x r in 1..12: ksingle*sqrt(n) inserted into an independent 30-digit quadrature "
    "of the non-central t distribution must give c; kdouble must satisfy both documented equations (normal coverage "
    "integral solved independently, chi-square tail by mpmath gammainc); monotone in p and c; above the normal "
    "quantile for c >= .5 and converging on the n ladder; order statistics against 50-digit binomial tails (returned "
    "r / n is extreme: it meets the confidence and the adjacent integer does not; p and c invert each other); scalar "
    "and broadcast forms agree.  signature = function / confidence side / n class"
)
ASSUMPTIONS = [
    "mpmath quadrature / gammainc / binomial sums as reference (30-50 digits)",
    "ties (confidence met with equality up to double rounding, e.g. p=c=.5, n=3 or 1-p == c, n=r=1) are a set of measure zero: either adjacent integer is accepted",
    "'from above for c >= .5' is demanded of ksingle only for p >= .5: for p < .5, c = .5 symmetry gives ksingle(p,.5,n) = -ksingle(1-p,.5,n), which lies below z_p mathematically",
    "order_stats('r') at n=1e6 only for p >= .99 (tail sums of <= 2e4 terms)",
]
P = [0.01, 0.1, 0.5, 0.75, 0.9, 0.95, 0.99, 0.999]
NBIG = [100, 1000, 10000, 1000000]
NQ = [2, 3, 4, 5, 6, 7, 10, 15, 21, 30, 45, 59, 60]
PX = [0.9999, 0.99999, 0.999999, 1 - 1e-7]
NX = [2, 3, 4, 5, 10, 30]
TOL_C = 1e-10  # on a probability


def bounds(tier):
    return {"quick": "8x8 (p,c) x 17 n x 12 r", "thorough": "8x8 (p,c) x 63 n x 12 r"}.get(tier, "")


def nlist(tier):
    return (NQ if tier == "quick" else list(range(2, 61))) + NBIG


def _mp():
    import mpmath as mp

    return mp


def zq(p, mp):
    return mp.sqrt(2) * mp.erfinv(2 * mp.mpf(p) - 1)


def nct_cdf(t, nu, delta, mp):
    """P((Z + delta)/sqrt(V/nu) <= t), V ~ chi2(nu), by quadrature over x = sqrt(V/nu)"""
    nu = mp.mpf(nu)
    t = mp.mpf(t)
    delta = mp.mpf(delta)
    lognorm = mp.log(2) + (nu / 2) * mp.log(nu / 2) - mp.loggamma(nu / 2)

    def f(x):
        if x <= 0:
            return mp.mpf(0)
        return mp.ncdf(t * x - delta) * mp.exp(lognorm + (nu - 1) * mp.log(x) - nu * x * x / 2)

    w = 1 / mp.sqrt(2 * nu)
    pts = [1 - 40 * w, 1 - 10 * w, 1 - 3 * w, mp.mpf(1), 1 + 3 * w, 1 + 10 * w, 1 + 40 * w]
    pts = [q for q in pts if q > 0]
    if 1 - 40 * w <= 0:
        pts = [mp.mpf(0)] + pts
    return mp.quad(f, pts)


def tail(n, r, q, mp):
    """P(K >= r), K ~ Binomial(n, q), summed from the short side"""
    n = int(n)
    r = int(r)
    if r <= 0:
        return mp.mpf(1)
    if r > n:
        return mp.mpf(0)
    q = mp.mpf(q)
    if r - 1 <= n - r:  # 1 - P(K <= r-1)
        term = (1 - q) ** n
        s = term
        ratio = q / (1 - q)
        for k in range(0, r - 1):
            term = term * (n - k) / (k + 1) * ratio
            s += term
        return 1 - s
    term = q**n
    s = term
    ratio = (1 - q) / q
    for k in range(n, r, -1):  # term(k-1) = term(k) * k/(n-k+1) * (1-q)/q
        term = term * k / (n - k + 1) * ratio
        s += term
    return s


def ncls(n):
    return "n2-9" if n < 10 else "n10-60" if n <= 60 else "n%g" % n


def pcls(p):
    return "/px" if p > 0.9995 else ""


# ------------------------------------------------------------------ ksingle
def check_ksingle(p, c, ns, res):
    from pyyeti import stats

    mp = _mp()
    mp.mp.dps = 30
    msgs = []
    z = zq(p, mp)
    ks = {}
    for n in ns:
        k = stats.ksingle(p, c, n)
        res.ev("ksingle/%s/%s%s" % ("c>=.5" if c >= 0.5 else "c<.5", ncls(n), pcls(p)))
        if not np.isfinite(k):
            msgs.append((n, "ksingle(%g,%g,%d) = %r" % (p, c, n, k)))
            continue
        k = float(k)
        ks[n] = k
        cdf = nct_cdf(k * mp.sqrt(n), n - 1, mp.sqrt(n) * z, mp)
        e = abs(float(cdf - c))
        res.err("ksingle |nct cdf - c|", e)
        if e > TOL_C:
            msgs.append((n, "ksingle(%g,%g,%d) = %.15g: the non-central t statement gives confidence %.12g, not %g" % (p, c, n, k, float(cdf), c)))
        if c >= 0.5 and p >= 0.5 and not k > float(z) * (1 - 1e-13) - 1e-15:
            msgs.append((n, "ksingle(%g,%g,%d) = %.15g is below the normal quantile %.15g although c >= .5" % (p, c, n, k, float(z))))
    msgs += ladder(ks, float(z), c, "ksingle(%g,%g,n)" % (p, c), p)
    return msgs


def ladder(ks, z, c, what, p):
    """convergence on the n ladder 100..1e6"""
    msgs = []
    prev = None
    zc = abs(float(zq(c, _mp())))
    for n in NBIG:
        if n not in ks:
            continue
        d = abs(ks[n] - z)
        bound = 2.0 * (zc + 0.5) * np.sqrt((1 + z * z / 2) / n) + 2.0 / n
        if d > bound:
            msgs.append((n, "%s: |k - z| = %.3g at n=%d exceeds the convergence bound %.3g" % (what, d, n, bound)))
        if prev is not None and c >= 0.5 and not d <= prev:
            msgs.append((n, "%s: distance to the normal quantile grows from %.3g to %.3g at n=%d" % (what, prev, d, n)))
        prev = d
    return msgs


# ------------------------------------------------------------------ kdouble
def getr_ref(n, p, mp):
    sn = 1 / mp.sqrt(n)
    f = lambda r: mp.ncdf(sn + r) - mp.ncdf(sn - r) - p
    r0 = zq((1 + mp.mpf(p)) / 2, mp)
    return mp.findroot(f, r0)


def check_kdouble(p, c, ns, res):
    from pyyeti import stats

    mp = _mp()
    mp.mp.dps = 30
    msgs = []
    z = zq((1 + mp.mpf(p)) / 2, mp)
    ks = {}
    for n in ns:
        k = stats.kdouble(p, c, n)
        res.ev("kdouble/%s/%s%s" % ("c>=.5" if c >= 0.5 else "c<.5", ncls(n), pcls(p)))
        if not np.isfinite(k) or k <= 0:
            msgs.append((n, "kdouble(%r,%g,%d) = %r" % (p, c, n, float(k))))
            continue
        k = float(k)
        ks[n] = k
        r = getr_ref(n, p, mp)
        chi = (n - 1) * r * r / (mp.mpf(k) ** 2)  # the chi-square value the returned k implies
        cc = 1 - mp.gammainc(mp.mpf(n - 1) / 2, 0, chi / 2, regularized=True)  # P(chi2_{n-1} > chi) must be c
        e = abs(float(cc - c))
        res.err("kdouble |chi2 tail - c|", e)
        if e > 2 * TOL_C:
            msgs.append((n, "kdouble(%g,%g,%d) = %.15g: with r from the coverage integral the chi-square equation gives confidence %.12g, not %g" % (p, c, n, k, float(cc), c)))
        if c >= 0.5 and not k > float(z):
            msgs.append((n, "kdouble(%g,%g,%d) = %.15g is below the normal quantile %.15g although c >= .5" % (p, c, n, k, float(z))))
    msgs += ladder(ks, float(z), c, "kdouble(%g,%g,n)" % (p, c), p)
    return msgs


def check_monotone(ns, res):
    """k increases with coverage and with confidence (full 8x8 grid per n); array form == scalar form"""
    from pyyeti import stats

    msgs = []
    for name, fn in (("ksingle", stats.ksingle), ("kdouble", stats.kdouble)):
        pa = np.array(P)
        for n in ns:
            tab = fn(pa[:, None], pa[None, :], n)  # rows p, cols c
            res.ev("%s/monotone+broadcast" % name, n=64)
            if tab.shape != (8, 8):
                msgs.append((n, "%s broadcast shape %s" % (name, tab.shape)))
                continue
            for i, j in itertools.product(range(8), range(8)):
                s = fn(P[i], P[j], n)
                if np.ndim(s) != 0 or not (s == tab[i, j] or abs(s - tab[i, j]) <= 1e-12 * abs(s)):
                    msgs.append((n, "%s(%g,%g,%d): scalar call %r differs from the broadcast entry %r" % (name, P[i], P[j], n, s, tab[i, j])))
            if not np.all(np.diff(tab, axis=0) > 0):
                msgs.append((n, "%s(p,c,%d) is not increasing in p: %s" % (name, n, np.argwhere(np.diff(tab, axis=0) <= 0)[:3].tolist())))
            if not np.all(np.diff(tab, axis=1) > 0):
                msgs.append((n, "%s(p,c,%d) is not increasing in c: %s" % (name, n, np.argwhere(np.diff(tab, axis=1) <= 0)[:3].tolist())))
        # n as a column, p as a row
        nn = np.array(ns)[:, None]
        tab = fn(pa[None, :], 0.9, nn)
        for i, n in enumerate(ns):
            for j in range(8):
                s = fn(P[j], 0.9, n)
                if not abs(s - tab[i, j]) <= 1e-12 * abs(s):
                    msgs.append((n, "%s(%g,.9,n=%d) in an (n-column, p-row) broadcast: %r vs scalar %r" % (name, P[j], n, tab[i, j], s)))
    return msgs


# ------------------------------------------------------------------ order statistics
TIE = 1e-14  # equality up to double rounding of 1-p, 1-c counts as a tie


def check_order_r(p, c, ns, res):
    from pyyeti import stats

    mp = _mp()
    mp.mp.dps = 50
    msgs = []
    for n in ns:
        if n == 1000000 and p < 0.99:
            continue
        r = stats.order_stats("r", p=p, c=c, n=n)
        if not isinstance(r, (int, np.integer)):
            msgs.append((n, "order_stats('r', p=%g, c=%g, n=%d) returned %r (not an integer)" % (p, c, n, r)))
            continue
        r = int(r)
        q = 1 - mp.mpf(p)
        res.ev("order/r/%s/%s" % ("r=0" if tail(n, 1, q, mp) < c else "r>0", ncls(n)))
        if not 0 <= r <= n:
            msgs.append((n, "order_stats('r', p=%g, c=%g, n=%d) = %d is outside 0..n" % (p, c, n, r)))
            continue
        t_r = tail(n, r, q, mp)
        t_r1 = tail(n, r + 1, q, mp)
        if r >= 1 and t_r < c - TIE:
            msgs.append((n, "order_stats('r', p=%g, c=%g, n=%d) = %d, but the %d-th largest of %d bounds P%g with confidence %.12g < c" % (p, c, n, r, r, n, 100 * p, float(t_r))))
        if r + 1 <= n and t_r1 > mp.mpf(c) + TIE:
            msgs.append((n, "order_stats('r', p=%g, c=%g, n=%d) = %d, but rank %d still meets the confidence (%.12g >= c)" % (p, c, n, r, r + 1, float(t_r1))))
        if abs(t_r1 - c) <= TIE or abs(t_r - c) <= TIE:
            res.exit("exact tie: confidence met with equality")
        # consistency with 'c', 'n', 'p'
        if r >= 1:
            cc = stats.order_stats("c", p=p, n=n, r=r)
            if abs(float(cc) - float(t_r)) > 1e-10 * max(float(t_r), 1e-300) + 1e-300:
                msgs.append((n, "order_stats('c', p=%g, n=%d, r=%d) = %.15g, exact binomial tail %.15g" % (p, n, r, cc, float(t_r))))
            if r <= 12 or n <= 60:
                try:
                    n2 = int(stats.order_stats("n", p=p, c=c, r=r))
                except Exception as e:  # noqa
                    msgs.append((n, "order_stats('n', p=%g, c=%g, r=%d) raised %r" % (p, c, r, e)))
                    continue
                if abs(t_r - c) > TIE and not (r <= n2 <= n):
                    msgs.append((n, "rank %d suffices for n=%d, yet order_stats('n', p=%g, c=%g, r=%d) = %d" % (r, n, p, c, r, n2)))
    return msgs


def check_order_n(p, c, res):
    from pyyeti import stats

    mp = _mp()
    mp.mp.dps = 50
    msgs = []
    q = 1 - mp.mpf(p)
    for r in range(1, 13):
        try:
            n = stats.order_stats("n", p=p, c=c, r=r)
        except Exception as e:  # noqa
            msgs.append((r, "order_stats('n', p=%g, c=%g, r=%d) raised %r" % (p, c, r, e)))
            res.ev("order/n/raised")
            continue
        if not isinstance(n, (int, np.integer)):
            msgs.append((r, "order_stats('n', p=%g, c=%g, r=%d) returned %r (not an integer)" % (p, c, r, n)))
            continue
        n = int(n)
        res.ev("order/n/%s" % ("n=r" if q**r >= c else "n>r"))
        if n < r:
            msgs.append((r, "order_stats('n', p=%g, c=%g, r=%d) = %d < r" % (p, c, r, n)))
            continue
        t = tail(n, r, q, mp)
        if t < c - TIE:
            msgs.append((r, "order_stats('n', p=%g, c=%g, r=%d) = %d, but the confidence there is only %.12g" % (p, c, r, n, float(t))))
        if n - 1 >= r:
            t1 = tail(n - 1, r, q, mp)
            if t1 > mp.mpf(c) + TIE:
                msgs.append((r, "order_stats('n', p=%g, c=%g, r=%d) = %d, but n=%d already meets the confidence (%.12g)" % (p, c, r, n, n - 1, float(t1))))
        # rank from that n gives r back (it is the largest rank for that n, unless a tie)
        r2 = int(stats.order_stats("r", p=p, c=c, n=n))
        if r2 < r and abs(t - c) > TIE:
            msgs.append((r, "order_stats('r', p=%g, c=%g, n=%d) = %d although rank %d meets the confidence there" % (p, c, n, r2, r)))
    # broadcast: r column x p row
    try:
        rr = np.arange(1, 13).reshape(-1, 1)
        tab = stats.order_stats("n", c=c, r=rr, p=[p, 0.9])
        if tab.shape != (12, 2) or not np.issubdtype(tab.dtype, np.integer):
            msgs.append((0, "order_stats('n') broadcast returns shape %s dtype %s" % (tab.shape, tab.dtype)))
        else:
            for r in range(1, 13):
                try:
                    s = stats.order_stats("n", p=p, c=c, r=r)
                except Exception:
                    continue
                if int(s) != int(tab[r - 1, 0]):
                    msgs.append((r, "order_stats('n') broadcast entry %d != scalar %d (p=%g,c=%g,r=%d)" % (tab[r - 1, 0], s, p, c, r)))
    except Exception as e:  # noqa
        if not any("raised" in m[1] for m in msgs):
            msgs.append((0, "order_stats('n', c=%g, r=column, p=[%g,.9]) raised %r" % (c, p, e)))
    return msgs


def check_order_pc(c, ns, res):
    """'p' and 'c' invert each other and equal the binomial tail; p is the largest coverage meeting c"""
    from pyyeti import stats

    mp = _mp()
    mp.mp.dps = 50
    msgs = []
    for n in ns:
        if n > 10000:
            continue
        for r in range(1, min(12, n) + 1):
            try:
                p = stats.order_stats("p", c=c, n=n, r=r)
            except Exception as e:  # noqa
                msgs.append((n, "order_stats('p', c=%g, n=%d, r=%d) raised %r" % (c, n, r, e)))
                continue
            res.ev("order/p/%s" % ncls(n))
            if np.ndim(p) != 0 or not 0 < p < 1:
                msgs.append((n, "order_stats('p', c=%g, n=%d, r=%d) = %r" % (c, n, r, p)))
                continue
            t = tail(n, r, 1 - mp.mpf(float(p)), mp)
            # sensitivity dc/dp can be large (n*...): allow for brentq's xtol 2e-12 in p
            dq = mp.mpf(4e-12)
            lo = tail(n, r, max(1 - mp.mpf(float(p)) - dq, mp.mpf(0)), mp)
            hi = tail(n, r, min(1 - mp.mpf(float(p)) + dq, mp.mpf(1)), mp)
            if not (lo - 1e-12 <= c <= hi + 1e-12):
                msgs.append((n, "order_stats('p', c=%g, n=%d, r=%d) = %.15g, but the confidence at that coverage is %.12g" % (c, n, r, p, float(t))))
            cc = stats.order_stats("c", p=float(p), n=n, r=r)
            if abs(float(cc) - float(t)) > 1e-10 * float(t) + 1e-300:
                msgs.append((n, "order_stats('c', p=%.15g, n=%d, r=%d) = %.15g, exact binomial tail %.15g" % (p, n, r, cc, float(t))))
        # array form
        rs = np.arange(1, min(12, n) + 1)
        pa = stats.order_stats("p", c=c, n=n, r=rs)
        ca = stats.order_stats("c", p=pa, n=n, r=rs)
        ps = [stats.order_stats("p", c=c, n=n, r=int(r)) for r in rs]
        cs = [stats.order_stats("c", p=float(q), n=n, r=int(r)) for q, r in zip(ps, rs)]
        if np.shape(pa) != rs.shape or np.shape(ca) != rs.shape or not np.array_equal(pa, ps) or not np.allclose(ca, cs, rtol=1e-13, atol=0):
            msgs.append((n, "order_stats array form differs from the scalar calls for c=%g, n=%d: p %s vs %s" % (c, n, np.asarray(pa).tolist(), ps)))
    return msgs


def check_order_r_broadcast(ns, res):
    from pyyeti import stats

    msgs = []
    ns = [n for n in ns if n <= 10000]
    tab = stats.order_stats("r", p=np.array(P)[None, :], c=0.9, n=np.array(ns)[:, None])
    res.ev("order/r/broadcast", n=tab.size)
    if tab.shape != (len(ns), 8) or not np.issubdtype(tab.dtype, np.integer):
        return [(0, "order_stats('r') broadcast returns shape %s dtype %s" % (tab.shape, tab.dtype))]
    for i, n in enumerate(ns):
        for j, p in enumerate(P):
            s = stats.order_stats("r", p=p, c=0.9, n=n)
            if int(s) != int(tab[i, j]):
                msgs.append((n, "order_stats('r') broadcast entry %d != scalar %d (p=%g, c=.9, n=%d)" % (tab[i, j], s, p, n)))
    # shapes follow numpy broadcasting exactly, also with singleton axes (a lone column or row stays 2-D)
    col = np.array([[5], [20], [45]])
    row = np.array([[5, 20, 45]])
    for which, kw_col, kw_row in (("r", dict(p=0.9, c=0.9, n=col), dict(p=0.9, c=0.9, n=row)), ("n", dict(p=0.9, c=0.9, r=col[:, :1] // 5 + 1), dict(p=0.9, c=0.9, r=row // 5 + 1)),
                                  ("p", dict(c=0.9, n=col * 3, r=2), dict(c=0.9, n=row * 3, r=2)), ("c", dict(p=0.9, n=col * 3, r=2), dict(p=0.9, n=row * 3, r=2))):
        for nm, kw, shp in (("column", kw_col, (3, 1)), ("row", kw_row, (1, 3))):
            got = stats.order_stats(which, **kw)
            res.ev("order/%s/shape-%s" % (which, nm))
            if np.shape(got) != shp:
                msgs.append((0, "order_stats(%r) with a lone %s argument returns shape %s, numpy broadcasting gives %s" % (which, nm, np.shape(got), shp)))
                continue
            flat = [stats.order_stats(which, **{k: (np.ravel(v)[i] if np.ndim(v) else v) for k, v in kw.items()}) for i in range(3)]
            if not np.allclose(np.ravel(got), flat, rtol=1e-12):
                msgs.append((0, "order_stats(%r) %s form differs from the scalar calls" % (which, nm)))
    try:
        stats.order_stats("x", p=0.5, c=0.5, n=3)
        msgs.append((0, "order_stats('x') did not raise ValueError"))
    except ValueError:
        pass
    return msgs


# ------------------------------------------------------------------ driver
def check_forms(res):
    """sample sizes / order numbers given in any integer dtype (narrow, unsigned), as lists or as numpy scalars give the
    result of the same values as Python ints - bit for bit (the functions compute in double precision)"""
    from pyyeti import stats

    msgs = []
    nvals = [2, 3, 10, 21, 100, 127]
    for p, c in ((0.99, 0.9), (0.9, 0.5), (0.5, 0.95)):
        base_s = np.asarray(stats.ksingle(p, c, list(nvals)), float)  # (array calls: kdouble's Newton loop runs until ALL entries converge,
        base_d = np.asarray(stats.kdouble(p, c, list(nvals)), float)  #  so array and scalar calls may differ in the last bits)
        for dt in (np.int8, np.uint8, np.int16, np.uint16, np.int32, np.int64, np.uint64, np.float32, float):
            arr = np.array(nvals, dtype=dt)
            nm = np.dtype(dt).name
            res.ev("forms/k/%s" % nm)
            for fn, base in ((stats.ksingle, base_s), (stats.kdouble, base_d)):
                try:
                    got = np.asarray(fn(p, c, arr), float)
                except Exception as e:  # noqa
                    msgs.append(("forms", "%s(p=%g, c=%g, n as %s array) raised %r" % (fn.__name__, p, c, nm, e)))
                    continue
                if got.shape != base.shape or not np.array_equal(got, base):
                    msgs.append(("forms", "%s(p=%g, c=%g) with n given as a %s array is %s; with Python ints %s" % (fn.__name__, p, c, nm, got.tolist(), base.tolist())))
        for dt in (np.int8, np.uint8, np.int16, np.uint16, np.int32, np.int64):
            nm = np.dtype(dt).name
            res.ev("forms/order/%s" % nm)
            for r in (1, 2, 5):
                calls = {
                    "n": (lambda r_: stats.order_stats("n", p=p, c=c, r=r_)),
                    "c": (lambda r_: stats.order_stats("c", p=p, n=dt(120) if r_ is not r else 120, r=r_)),
                    "p": (lambda r_: stats.order_stats("p", c=c, n=dt(120) if r_ is not r else 120, r=r_)),
                }
                for which, f in calls.items():
                    try:
                        want = f(r)
                        got = f(dt(r))
                        gota = np.asarray(f(np.array([r, r], dtype=dt))) if which == "n" else None
                    except Exception as e:  # noqa
                        msgs.append(("forms", "order_stats(%r, p=%g, c=%g) with r (and n) given as %s raised %r" % (which, p, c, nm, e)))
                        continue
                    if not np.array_equal(np.asarray(got), np.asarray(want)) or (gota is not None and not np.array_equal(gota, [want, want])):
                        msgs.append(("forms", "order_stats(%r, p=%g, c=%g, r=%d) given as %s is %s; with Python ints %s" % (which, p, c, r, nm, got, want)))
            for n in (1, 50, 120):
                try:
                    want = stats.order_stats("r", p=p, c=c, n=n)
                    got = stats.order_stats("r", p=p, c=c, n=dt(n))
                except Exception as e:  # noqa
                    msgs.append(("forms", "order_stats('r', n as %s) raised %r" % (nm, e)))
                    continue
                if got != want:
                    msgs.append(("forms", "order_stats('r', p=%g, c=%g, n=%d) given as %s is %s; with a Python int %s" % (p, c, n, nm, got, want)))
    # array arguments in any memory layout (reversed views, transposed / Fortran-ordered 2-D arrays): entry [i, j] of the
    # result belongs to entry [i, j] of the arguments; the caller's arrays are never modified
    rr = np.array([[1, 2, 3], [4, 6, 9]])
    nn = np.array([[100, 300, 500], [700, 900, 1200]])
    layouts = {"C": lambda a: np.ascontiguousarray(a), "F": lambda a: np.asfortranarray(a), "T-view": lambda a: np.ascontiguousarray(a.T).T,
               "reversed": lambda a: np.ascontiguousarray(a[::-1, ::-1])[::-1, ::-1]}
    for p, c in ((0.99, 0.9), (0.9, 0.5)):
        want = {"c": np.array([[stats.order_stats("c", p=p, n=int(nn[i, j]), r=int(rr[i, j])) for j in range(3)] for i in range(2)]),
                "n": np.array([[stats.order_stats("n", p=p, c=c, r=int(rr[i, j])) for j in range(3)] for i in range(2)]),
                "r": np.array([[stats.order_stats("r", p=p, c=c, n=int(nn[i, j])) for j in range(3)] for i in range(2)]),
                "p": np.array([[stats.order_stats("p", c=c, n=int(nn[i, j]), r=int(rr[i, j])) for j in range(3)] for i in range(2)])}
        for lname, lay in layouts.items():
            r_, n_ = lay(rr), lay(nn)
            rs, ns_ = r_.copy(), n_.copy()
            res.ev("forms/layout/%s" % lname)
            try:
                got = {"c": stats.order_stats("c", p=p, n=n_, r=r_), "n": stats.order_stats("n", p=p, c=c, r=r_),
                       "r": stats.order_stats("r", p=p, c=c, n=n_), "p": stats.order_stats("p", c=c, n=n_, r=r_)}
            except Exception as e:  # noqa
                msgs.append(("forms", "order_stats with %s-layout array arguments raised %r" % (lname, e)))
                continue
            for which in "cnrp":
                g = np.asarray(got[which], float)
                if g.shape != (2, 3) or not np.allclose(g, want[which], rtol=1e-12, atol=0):
                    msgs.append(("forms", "order_stats(%r, p=%g, c=%g) with %s-layout array arguments is %s; entry by entry it should be %s" % (which, p, c, lname, g.tolist(), want[which].tolist())))
            if not (np.array_equal(r_, rs) and np.array_equal(n_, ns_)):
                msgs.append(("forms", "order_stats modified its array arguments (%s layout): r %s -> %s" % (lname, rs.tolist(), r_.tolist())))
    return msgs


HIST_MENU = [
    ("ksingle", (0.99, 0.9, 21), {}), ("kdouble", (0.99, 0.9, 21), {}), ("kdouble", (0.99, 0.9, 21), {"tol": 1e-3}), ("kdouble", (0.99, 0.9, 21), {"tol": 1e-1}),
    ("kdouble", (0.9, 0.5, [3, 21]), {}), ("kdouble", (0.9, 0.5, [3, 21]), {"tol": 1e-2}), ("order_r", (), dict(p=0.99, c=0.9, n=700)),
    ("order_n", (), dict(p=0.99, c=0.9, r=4)), ("order_c", (), dict(p=0.99, n=700, r=4)), ("order_p", (), dict(c=0.9, n=700, r=4)),
]


def _hist_call(i):
    from pyyeti import stats

    name, args, kw = HIST_MENU[i]
    if name.startswith("order_"):
        return np.asarray(stats.order_stats(name[-1], **kw), float)
    return np.asarray(getattr(stats, name)(*args, **kw), float)


def check_call_history(res, maxlen):
    """K2 over the module: EVERY sequence of up to `maxlen` calls from a menu (same arguments with different `tol`, scalar
    and array forms, all order_stats modes); each result must be bit-identical to the same call made first in a
    pristine process (no result may depend on what was computed before)"""
    from vf.core import fresh_eval

    msgs = []
    first = [fresh_eval(_hist_call, i) for i in range(len(HIST_MENU))]
    for n in range(2, maxlen + 1):
        for seq in itertools.product(range(len(HIST_MENU)), repeat=n):
            if n == 3 and len(set(seq)) == 1:
                continue
            ok = True
            for step, i in enumerate(seq):
                got = _hist_call(i)
                res.transitions += 1
                if got.shape != first[i].shape or got.tobytes() != first[i].tobytes():
                    msgs.append((list(seq), "call %d of the history %s (%s%s %s) returns %s; the same call made first in a fresh process returns %s"
                                 % (step + 1, [HIST_MENU[j][0] + str(HIST_MENU[j][2] or "") for j in seq], HIST_MENU[i][0], HIST_MENU[i][1], HIST_MENU[i][2], got.tolist(), first[i].tolist())))
                    ok = False
                    break
            res.traces += 1
            if len(msgs) > 5:
                return msgs
    res.states += len(HIST_MENU) ** min(maxlen, 2)
    res.ev("call-history", n=0)
    return msgs


def shards(tier, seed):
    out = [dict(part="forms"), dict(part="callhist", maxlen=2 if tier == "quick" else 3)]
    ns = nlist(tier)
    for p, c in itertools.product(P, P):
        for part in ("ksingle", "kdouble", "order_r"):
            for blk in (ns[: len(ns) // 2], ns[len(ns) // 2 :]):
                out.append(dict(part=part, p=p, c=c, ns=blk))
        out.append(dict(part="order_n", p=p, c=c))
    # extreme coverage (up to seven nines) at small n: the Newton iteration of kdouble and the non-central t
    # quantile work far out in the tails
    for p in PX:
        for c in (0.1, 0.5, 0.9, 0.99):
            out.append(dict(part="ksingle", p=p, c=c, ns=NX))
            out.append(dict(part="kdouble", p=p, c=c, ns=NX))
    # very high coverage: sample sizes of 1e4 .. 1e7, where a root known only to a relative tolerance is off by whole samples
    for p in (0.9995, 0.9999, 0.99999, 0.999999):
        for c in (0.5, 0.9, 0.99):
            out.append(dict(part="order_n", p=p, c=c))
    for c in P:
        out.append(dict(part="order_pc", c=c, ns=ns))
    out.append(dict(part="monotone", ns=ns))
    out.append(dict(part="order_r_bc", ns=ns))
    r = seed % len(out)
    return out[r:] + out[:r]


def _run(sh, res):
    part = sh["part"]
    if part == "ksingle":
        return check_ksingle(sh["p"], sh["c"], sh["ns"], res)
    if part == "kdouble":
        return check_kdouble(sh["p"], sh["c"], sh["ns"], res)
    if part == "order_r":
        return check_order_r(sh["p"], sh["c"], sh["ns"], res)
    if part == "order_n":
        return check_order_n(sh["p"], sh["c"], res)
    if part == "order_pc":
        return check_order_pc(sh["c"], sh["ns"], res)
    if part == "monotone":
        return check_monotone(sh["ns"], res)
    if part == "forms":
        return check_forms(res)
    if part == "callhist":
        m = check_call_history(res, sh["maxlen"])
        return [("hist", t) for seq, t in m if "seq" not in sh or seq == list(sh["seq"])]
    return check_order_r_broadcast(sh["ns"], res)


def run_shard(sh):
    res = Result()
    with warnings.catch_warnings():
        warnings.simplefilter("ignore")
        msgs = _run(sh, res)
    for key, m in msgs:
        case = dict(sh)
        if "ns" in case:
            case["ns"] = [key] if key in case["ns"] else case["ns"]
        case["key"] = key
        res.viol(case, m, kind=sh["part"] + "/" + m.split("(")[0][:30] + ("/raised" if "raised" in m else ""))
    res.sample({k: v for k, v in sh.items() if k != "ns"})
    return res


def replay(case):
    res = Result()
    case = {k: v for k, v in case.items() if k != "key"}
    return [m for _, m in _run(case, res)]


def required_sigs(tier):
    return ["ksingle/c>=.5/n2-9", "ksingle/c<.5/n1e+06", "kdouble/c>=.5/n10-60", "order/r/r=0/n2-9", "order/r/r>0/n1e+06", "order/n/n>r", "order/p/n10-60"]


def _m_low_coverage(case, msg):
    return case.get("part") in ("order_n", "order_r") and "order_stats('n'" in msg and "raised ValueError" in msg and "different signs" in msg


def _m_kdouble_nan(case, msg):
    """Newton iteration of _getr diverges (division by an underflowed derivative): only n = 2 with p >= 1 - 1e-7"""
    return case.get("part") == "kdouble" and case.get("key") == 2 and case.get("p", 0) >= 1 - 1e-7 and msg.endswith("= nan")


FINDING_MATCHERS = {"C20-order-n-already-met-at-r": _m_low_coverage, "C20-kdouble-seven-nines-n2": _m_kdouble_nan}
