"""C15 - Norton-Thevenin coupling reproduces the directly coupled system
(K1 grid over source/load models x interface selections x boundary forms x
damping x frequencies x forces; R2 physical coupling by constraint
elimination + direct complex solve, R5 definitions of apparent mass)."""
import itertools
import warnings

import numpy as np
import scipy.linalg as la

from vf.core import jsame, Result
from vf.ref import cb_ref

PROP = "C15"
LEVEL = "model_checking"
RULE = (
    "sources {2,3,4-mass free-free networks} x loads {1,2,3-mass} x EVERY ordered interface selection of 1..3 DOF on "
    "both sides x boundary form {recovery matrix, Craig-Bampton partition vector with b-set first/last/interleaved, "
    "all or truncated modes} for source and load x damping {none, stiffness-proportional, discrete dashpots} x "
    "frequency set {near 0, below/at/between resonances of the coupled system, above} x every unit force and a dense "
    "complex force on the source x solver route {default, FreqDirect, precomputed 3-D arrays}.  Oracle: direct solve "
    "of the physically coupled system (constraint elimination) for interface acceleration and force; AM x "
    "accelerance = I; TAM = SAM + LAM; R = diag(TAM^-1 SAM); AM(w->0) = physical mass.  signature = form pair / "
    "interface size / damping"
)
ASSUMPTIONS = [
    "1-D spring-mass networks (one rigid-body mode); 6-DOF interfaces of 3-D models are exercised in C06's cbtf part",
    "damping never grounds the rigid-body mode (no mass-proportional term): that case is the open C02 finding",
    "tolerance 1e-8 * max(1, cond of the interface accelerances) relative to the largest response",
]

SOURCES = {
    "S2": ([10.0, 4.0], [(0, 1, 5000.0)], [(0, 1, 15.0)]),
    "S3": ([3.0, 5.0, 2.0], [(0, 1, 4000.0), (1, 2, 2500.0)], [(0, 1, 3.0), (1, 2, 9.0)]),
    "S4": ([6.0, 2.0, 4.0, 3.0], [(0, 1, 3000.0), (1, 2, 5200.0), (2, 3, 2100.0), (0, 2, 1500.0), (1, 3, 900.0)], [(0, 1, 6.0), (2, 3, 2.0), (0, 2, 4.0)]),
}
LOADS = {
    "L1": ([2.5], [], []),
    "L2": ([2.0, 1.5], [(0, 1, 3000.0)], [(0, 1, 5.0)]),
    "L3": ([1.0, 2.0, 1.2], [(0, 1, 6000.0), (1, 2, 2000.0), (0, 2, 700.0)], [(0, 1, 2.0), (1, 2, 7.0)]),
}
DAMP = ("none", "kprop", "dash", "nonsym")


def bounds(tier):
    return {"quick": "interfaces <= 2 DOF, 3 source x 3 load models", "thorough": "interfaces <= 3 DOF, 3 source x 3 load models"}.get(tier, "")


def model(defn, damp):
    m, springs, dash = defn
    M, B, K = cb_ref.network(m, springs, dash if damp in ("dash", "nonsym") else ())
    if damp == "kprop":
        B = 3e-4 * K
    if damp == "nonsym":
        # dashpots plus a skew (gyroscopic) part with zero row/column sums: non-symmetric damping that leaves
        # the rigid-body mode undamped; makes accelerance and apparent mass non-symmetric (index order matters)
        n = len(m)
        if n >= 3:
            G = np.zeros((n, n))
            for i in range(n):
                G[i, (i + 1) % n] += 5.0
                G[i, (i - 1) % n] -= 5.0
            B = B + G
    return M, B, K


def form_inputs(mats, bsel, form):
    """returns the [m, b, k, bdof] list for calcAM in the requested boundary form"""
    M, B, K = mats
    n = M.shape[0]
    nb = len(bsel)
    if form in ("drm", "drm-m1d"):
        T = np.zeros((nb, n))
        for j, d in enumerate(bsel):
            T[j, d] = 1.0
        if form == "drm-m1d":  # lumped mass handed over as the vector of its diagonal, b and k 2-D
            return [np.diag(M).copy(), B, K, T]
        return [M, B, K, T]
    kind, trunc = form
    nq = n - nb
    if trunc and nq >= 2:
        nq = nq - 1
    tot = nb + nq
    if kind in ("bfirst", "bsorted"):
        order = list(range(tot))
    elif kind == "blast":
        order = list(range(nb, tot)) + list(range(nb))
    else:  # interleaved: b, q alternating as far as possible
        bq = list(range(nb))
        qq = list(range(nb, tot))
        order = []
        while bq or qq:
            if qq:
                order.append(qq.pop(0))
            if bq:
                order.append(bq.pop(0))
    nm = (n - nb - 1) if (trunc and n - nb >= 2) else None
    if kind == "bsorted":
        # CB model built on the sorted boundary; the partition vector lists the b DOF in interface order (unsorted)
        sb = sorted(bsel)
        Mcb, Bcb, Kcb, T, bpos = cb_ref.cb_reduce(M, B, K, sb, nmodes=nm, order=order)
        return [Mcb, Bcb, Kcb, np.array([bpos[sb.index(d)] for d in bsel])]
    Mcb, Bcb, Kcb, T, bpos = cb_ref.cb_reduce(M, B, K, bsel, nmodes=nm, order=order)
    return [Mcb, Bcb, Kcb, np.array(bpos)]


FORMS = ["drm", "drm-m1d", ("bfirst", False), ("blast", False), ("inter", False), ("bsorted", False), ("bfirst", True)]


def fname(f):
    return f if isinstance(f, str) else "cb-%s%s" % (f[0], "-trunc" if f[1] else "")


def check_pair(sname, lname, damp, nb, res):
    from pyyeti import frclim, ode

    msgs = []
    src = model(SOURCES[sname], damp)
    load = model(LOADS[lname], damp)
    ns, nl = src[0].shape[0], load[0].shape[0]
    if nb > min(ns, nl):
        return msgs
    bs_list = [list(c) for c in itertools.combinations(range(ns), nb)]
    bs_list += [c[::-1] for c in bs_list if nb > 1][:2]
    bl_list = [list(p) for p in itertools.permutations(range(nl), nb)]
    for bs in bs_list:
        for bl in bl_list:
            M, B, K, lmap = cb_ref.couple(src, load, bs, bl)
            N = M.shape[0]
            lam = la.eigh(K, M, eigvals_only=True)
            fn = np.sqrt(np.abs(lam[1:])) / 2 / np.pi  # elastic modes of the coupled system
            fns = np.sqrt(np.abs(la.eigh(src[2], src[0], eigvals_only=True)[1:])) / 2 / np.pi
            freq = [1e-3 * fn[0], 0.5 * fn[0], fn[0] * 1.003, 3.0 * fn[-1]]
            if len(fn) > 1:
                freq.insert(3, np.sqrt(fn[0] * fn[1]))
            if damp == "nonsym" and max(ns, nl) < 3:
                continue
            if damp == "none":
                freq = [f for f in freq if abs(f - fn[0] * 1.003) > 1e-12]
            freq = np.array(sorted(freq))
            w = 2 * np.pi * freq
            # forces on the source: unit on every DOF + dense complex
            Fs = [np.eye(ns)[:, [d]] * np.ones((1, len(freq))) for d in range(ns)]
            Fs.append((np.arange(1, ns + 1)[:, None] * (1.0 - 0.5j)) * (1 + 0.1 * np.arange(len(freq)))[None, :])
            # references
            refs = []
            Hs = np.empty((nb, len(freq), nb), complex)
            Hl = np.empty((nb, len(freq), nb), complex)
            for j, wj in enumerate(w):
                Zs = cb_ref.dyn(*src, wj)
                Zl = cb_ref.dyn(*load, wj)
                Hs[:, j, :] = -wj * wj * la.inv(Zs)[np.ix_(bs, bs)]
                Hl[:, j, :] = -wj * wj * la.inv(Zl)[np.ix_(bl, bl)]
            for F in Fs:
                As = np.empty((nb, len(freq)), complex)
                A = np.empty((nb, len(freq)), complex)
                Fi = np.empty((nb, len(freq)), complex)
                for j, wj in enumerate(w):
                    Zs = cb_ref.dyn(*src, wj)
                    Zl = cb_ref.dyn(*load, wj)
                    Z = cb_ref.dyn(M, B, K, wj)
                    As[:, j] = -wj * wj * la.solve(Zs, F[:, j])[bs]
                    Fg = np.zeros(N, complex)
                    Fg[:ns] = F[:, j]
                    x = la.solve(Z, Fg)
                    A[:, j] = -wj * wj * x[bs]
                    Fi[:, j] = (Zl @ x[lmap])[bl]
                refs.append((As, A, Fi))
            eps = np.finfo(float).eps
            tolv = np.array([
                1e-9 * max(1.0, np.linalg.cond(Hs[:, j, :]), np.linalg.cond(Hl[:, j, :]), np.linalg.cond(la.inv(Hs[:, j, :]) + la.inv(Hl[:, j, :])))
                + 200 * eps * max(np.linalg.cond(cb_ref.dyn(M, B, K, w[j])), np.linalg.cond(cb_ref.dyn(*src, w[j])), np.linalg.cond(cb_ref.dyn(*load, w[j])))
                for j in range(len(freq))
            ])
            tol = tolv.max()
            am_cache = {}
            for fs_, fl_ in itertools.product(FORMS, FORMS):
                case = dict(part="pair", src=sname, load=lname, damp=damp, bs=bs, bl=bl, fs=fs_ if isinstance(fs_, str) else list(fs_), fl=fl_ if isinstance(fl_, str) else list(fl_))
                trunc = (not isinstance(fs_, str) and fs_[1] and ns - nb >= 2) or (not isinstance(fl_, str) and fl_[1] and nl - nb >= 2)
                S = form_inputs(src, bs, fs_)
                L = form_inputs(load, bl, fl_)
                res.ev("ntfl/%s+%s/nb%d/%s" % (fname(fs_), fname(fl_), nb, damp), n=len(Fs))
                for k, (As, A, Fi) in enumerate(refs):
                    try:
                        with warnings.catch_warnings():
                            warnings.simplefilter("ignore")
                            if k == 0:
                                insnap = [np.array(x).copy() for x in S + L + [As, freq]]
                                r = frclim.ntfl(S, L, As, freq)
                                if not all(np.array_equal(x, np.array(y)) for x, y in zip(insnap, S + L + [As, freq])):
                                    msgs.append((case, "ntfl / calcAM modified one of its inputs", "mutate"))
                                am_cache[(str(fs_), str(fl_))] = (r.SAM.copy(), r.LAM.copy())
                            else:
                                sam, lam_ = am_cache[(str(fs_), str(fl_))]
                                s0, l0 = sam.copy(), lam_.copy()
                                r = frclim.ntfl(sam, lam_, As, freq)  # precomputed apparent masses (documented alternative)
                                if not (np.array_equal(sam, s0) and np.array_equal(lam_, l0)):
                                    msgs.append((case, "ntfl modified the apparent-mass arrays it was given", "mutate"))
                                if k == 1 and fs_ == "drm":
                                    # the same arrays in every memory layout (all 6 axis storage orders), each used for TWO
                                    # calls: nothing is modified, both calls agree with the C-ordered call, TAM = SAM + LAM
                                    for p in itertools.permutations(range(3)):
                                        inv = np.argsort(p)
                                        sv = np.ascontiguousarray(s0.transpose(p)).transpose(inv)
                                        lv = np.ascontiguousarray(l0.transpose(p)).transpose(inv)
                                        for rep in (1, 2):
                                            rr = frclim.ntfl(sv, lv, As, freq)
                                            ok_in = np.array_equal(sv, s0) and np.array_equal(lv, l0)
                                            def _close(X, Y):  # per frequency, relative to the largest entry, graded like the main comparison
                                                ax = tuple(i for i in range(X.ndim) if i != 1)
                                                return bool(np.all(np.abs(X - Y).max(axis=ax) <= tolv * np.maximum(np.abs(Y).max(axis=ax), 1e-300)))
                                            ok_out = _close(rr.A, r.A) and _close(rr.F, r.F) and _close(rr.TAM, s0 + l0)
                                            if not (ok_in and ok_out):
                                                msgs.append((case, "ntfl with precomputed apparent masses stored in axis order %s, call #%d: %s"
                                                             % (list(p), rep, "the caller's arrays were modified" if not ok_in else "A / F / TAM differ from the C-ordered call"), "layout"))
                                                break
                                        else:
                                            continue
                                        break
                    except Exception as e:  # noqa
                        msgs.append((case, "ntfl raised %r" % (e,), "raise"))
                        break
                    if k == 0:
                        m_ = _am_msgs(r, Hs, Hl, freq, nb, tolv, trunc, src, load, bs, bl)
                        msgs += [(case, t, kd) for t, kd in m_]
                    if trunc:
                        continue
                    sc = np.maximum(np.abs(A).max(axis=0), 1e-300)
                    eA = (np.abs(r.A - A).max(axis=0) / sc / tolv).max()
                    sf = np.maximum(np.abs(Fi).max(axis=0), 1e-300)
                    eF = (np.abs(r.F - Fi).max(axis=0) / sf / tolv).max()
                    res.err("ntfl A rel err / tol", eA)
                    res.err("ntfl F rel err / tol", eF)
                    eA, eF, tol = eA, eF, 1.0
                    if not eA <= tol:
                        j = int(np.argmax(np.abs(r.A - A).max(axis=0)))
                        msgs.append((case, "interface acceleration differs from the directly coupled system (force case %d): rel err / tol %.3g > %.3g at %.6g Hz: ntfl %s, direct %s" % (k, eA, tol, freq[j], r.A[:, j].tolist(), A[:, j].tolist()), "A"))
                        break
                    if not eF <= tol:
                        j = int(np.argmax(np.abs(r.F - Fi).max(axis=0)))
                        msgs.append((case, "interface force differs from the directly coupled system (force case %d): rel err / tol %.3g > %.3g at %.6g Hz: ntfl %s, direct %s" % (k, eF, tol, freq[j], r.F[:, j].tolist(), Fi[:, j].tolist()), "F"))
                        break
            # general recovery matrices: the same scaling/sign change of the interface coordinates on both sides
            # (q_b = S x_b): A_gen = S A, F_gen = S^-T F, AM_gen = S^-T AM S^-1
            svec = np.array([2.0, -1.0, 0.5])[:nb]
            Ssrc = form_inputs(src, bs, "drm")
            Sld = form_inputs(load, bl, "drm")
            Ssrc[3] = svec[:, None] * Ssrc[3]
            Sld[3] = svec[:, None] * Sld[3]
            case = dict(part="pair", src=sname, load=lname, damp=damp, bs=bs, bl=bl, fs="drm-scaled", fl="drm-scaled")
            As, A, Fi = refs[-1]
            try:
                with warnings.catch_warnings():
                    warnings.simplefilter("ignore")
                    rg = frclim.ntfl(Ssrc, Sld, svec[:, None] * As, freq)
                res.ev("ntfl/drm-scaled/nb%d/%s" % (nb, damp))
                Ag, Fg = svec[:, None] * A, Fi / svec[:, None]
                eA = (np.abs(rg.A - Ag).max(axis=0) / np.maximum(np.abs(Ag).max(axis=0), 1e-300) / tolv).max()
                eF = (np.abs(rg.F - Fg).max(axis=0) / np.maximum(np.abs(Fg).max(axis=0), 1e-300) / tolv).max()
                if not (eA <= 4 and eF <= 4):
                    msgs.append((case, "recovery matrix with scaled/negated rows: interface acceleration/force differ from the directly coupled system expressed in the scaled interface coordinates (err/tol %.3g, %.3g)" % (eA, eF), "scaled"))
                for j in range(len(freq)):
                    Hg = svec[:, None] * Hs[:, j, :] * svec[None, :]
                    P = rg.SAM[:, j, :] @ Hg
                    if np.abs(P - np.eye(nb)).max() > 4 * tolv[j] * max(1.0, np.linalg.cond(Hg)):
                        msgs.append((case, "recovery matrix with scaled/negated rows: SAM(%.6g Hz) is not the inverse of T H T^T" % freq[j], "scaled-AM"))
                        break
            except Exception as e:  # noqa
                msgs.append((case, "ntfl with a scaled recovery matrix raised %r" % (e,), "scaled-raise"))
            # exactly 0 Hz (single interface DOF): everything is rigid - apparent mass = physical mass,
            # A = sum(F)/(ms + ml), F = ml * A
            if nb == 1:
                ms_, ml_ = np.trace(src[0]), np.trace(load[0])
                f0 = np.array([0.0, 0.5 * fn[0]])
                for fs_, fl_ in itertools.product(FORMS, FORMS):
                    if (not isinstance(fs_, str) and fs_[1]) or (not isinstance(fl_, str) and fl_[1]):
                        continue
                    case = dict(part="pair", src=sname, load=lname, damp=damp, bs=bs, bl=bl, fs=fs_ if isinstance(fs_, str) else list(fs_), fl=fl_ if isinstance(fl_, str) else list(fl_), zero_hz=True)
                    As0 = np.array([[1.0 / ms_, 1.0 / ms_]])
                    try:
                        with warnings.catch_warnings():
                            warnings.simplefilter("ignore")
                            r0 = frclim.ntfl(form_inputs(src, bs, fs_), form_inputs(load, bl, fl_), As0, f0)
                    except Exception as e:  # noqa
                        msgs.append((case, "ntfl at 0 Hz raised %r" % (e,), "zero-raise"))
                        continue
                    res.ev("ntfl0/%s+%s/%s" % (fname(fs_), fname(fl_), damp))
                    got0 = [r0.SAM[0, 0, 0], r0.LAM[0, 0, 0], r0.A[0, 0], r0.F[0, 0]]
                    want0 = [ms_, ml_, 1.0 / (ms_ + ml_), ml_ / (ms_ + ml_)]
                    if not np.allclose(got0, want0, rtol=1e-9, atol=0):
                        msgs.append((case, "at exactly 0 Hz [SAM, LAM, A, F] = %s; rigid-body values are %s" % ([complex(x) for x in got0], want0), "zero-hz"))
            # solver routes for the recovery-matrix form
            S = form_inputs(src, bs, "drm")
            with warnings.catch_warnings():
                warnings.simplefilter("ignore")
                a0 = frclim.calcAM(S, freq)
                a1 = frclim.calcAM(S, freq, fs=ode.FreqDirect(*src))
                a2 = frclim.calcAM(S, freq, fs=ode.SolveUnc(*src, pre_eig=True))
            res.ev("calcAM/routes/nb%d/%s" % (nb, damp))
            # one solver object used for two frequency vectors of equal length and equal end points (different interior)
            try:
                with warnings.catch_warnings():
                    warnings.simplefilter("ignore")
                    fB = freq.copy()
                    if len(fB) > 2:
                        fB[1:-1] = np.sqrt(freq[:-2] * freq[2:]) * 1.07
                    for mk in (lambda: ode.SolveUnc(*src, pre_eig=True), lambda: ode.FreqDirect(*src)):
                        fs1 = mk()
                        frclim.calcAM(S, freq, fs=fs1)
                        got = frclim.calcAM(S, fB, fs=fs1)
                        want = frclim.calcAM(S, fB, fs=mk())
                        if not np.array_equal(got, want):
                            msgs.append((dict(part="pair", src=sname, load=lname, damp=damp, bs=bs, bl=bl, fsreuse=True),
                                         "calcAM with one %s object used for a second frequency vector (same length and end points) differs from a fresh solver object: max rel diff %.3g"
                                         % (type(fs1).__name__, np.abs(got - want).max() / np.abs(want).max()), "fsreuse"))
            except Exception as e:  # noqa
                msgs.append((dict(part="pair", src=sname, load=lname, damp=damp, bs=bs, bl=bl, fsreuse=True), "calcAM with a reused solver object raised %r" % (e,), "fsreuse-raise"))
            # free acceleration given as a REAL-typed array (a specification curve): same result as the complex-typed array
            try:
                with warnings.catch_warnings():
                    warnings.simplefilter("ignore")
                    Asr = np.abs(refs[-1][0]) + 0.5
                    r1 = frclim.ntfl(S, form_inputs(load, bl, "drm"), Asr.astype(complex), freq)
                    r2 = frclim.ntfl(S, form_inputs(load, bl, "drm"), Asr.copy(), freq)
                    r3 = frclim.ntfl(S, form_inputs(load, bl, "drm"), np.round(Asr * 8).astype(np.int64) if False else Asr.tolist(), freq)
                for nm_ in ("A", "F"):
                    if not (np.array_equal(getattr(r1, nm_), getattr(r2, nm_)) and np.array_equal(getattr(r1, nm_), np.asarray(getattr(r3, nm_)))):
                        msgs.append((dict(part="pair", src=sname, load=lname, damp=damp, bs=bs, bl=bl, realAs=True),
                                     "ntfl with the free acceleration given as a real-typed array / nested list: %s differs from the complex-typed array with the same values (max diff %.3g)"
                                     % (nm_, np.abs(np.asarray(getattr(r2, nm_)) - getattr(r1, nm_)).max()), "realAs"))
                        break
            except Exception as e:  # noqa
                msgs.append((dict(part="pair", src=sname, load=lname, damp=damp, bs=bs, bl=bl, realAs=True), "ntfl with a real-typed free acceleration raised %r" % (e,), "realAs-raise"))
            sc = np.abs(a0).max(axis=(0, 2))
            tr = tolv.max()
            if (np.abs(a1 - a0).max(axis=(0, 2)) / sc / tolv).max() > 1 or (np.abs(a2 - a0).max(axis=(0, 2)) / sc / tolv).max() > 1:
                sc = sc.max()
                msgs.append((dict(part="pair", src=sname, load=lname, damp=damp, bs=bs, bl=bl, routes=True), "calcAM via FreqDirect / explicit SolveUnc differs from the default route: %.3g, %.3g (relative)" % (np.abs(a1 - a0).max() / sc, np.abs(a2 - a0).max() / sc), "routes"))
    return msgs


def _am_msgs(r, Hs, Hl, freq, nb, tol, trunc, src, load, bs, bl):
    out = []
    if r.SAM.shape != (nb, len(freq), nb) or r.LAM.shape != r.SAM.shape or r.TAM.shape != r.SAM.shape:
        return [("apparent mass arrays have shapes %s %s %s, expected (b, freq, b) = %s" % (r.SAM.shape, r.LAM.shape, r.TAM.shape, (nb, len(freq), nb)), "shape")]
    if not np.array_equal(r.TAM, r.SAM + r.LAM):
        out.append(("TAM is not SAM + LAM", "TAM"))
    for j in range(len(freq)):
        for nm, AM, H in (("SAM", r.SAM, Hs), ("LAM", r.LAM, Hl)):
            if trunc:
                continue
            P = AM[:, j, :] @ H[:, j, :]
            if np.abs(P - np.eye(nb)).max() > tol[j] * max(1.0, np.linalg.cond(H[:, j, :])):
                out.append(("%s(%.6g Hz) is not the inverse of the boundary accelerance: AM @ H = %s" % (nm, freq[j], P.tolist()), nm + "-inverse"))
                break
        Mr = la.solve(r.TAM[:, j, :], r.SAM[:, j, :])
        if np.abs(r.R[:, j] - np.diag(Mr)).max() > 1e-10 * max(1.0, np.abs(Mr).max()):
            out.append(("R(%.6g Hz) is not diag(TAM^-1 SAM)" % freq[j], "R"))
            break
    if nb == 1 and not trunc:
        for nm, AM, mats in (("SAM", r.SAM, src), ("LAM", r.LAM, load)):
            mtot = np.trace(mats[0])
            if abs(AM[0, 0, 0] - mtot) > 2e-5 * mtot:
                out.append(("%s at %.3g Hz (1e-3 x first coupled mode) = %r, physical mass %r" % (nm, freq[0], AM[0, 0, 0], mtot), nm + "-rigid"))
    return out


def check_modal_source(res):
    """source given as a free-free MODAL model with a dense recovery matrix (mode-shape rows at the interface), with
    fully populated modal damping; one variant has an exactly critically damped mode, which makes the state matrix
    defective so that calcAM must fall back from the complex-mode solver to the direct solver.  Coupling reference:
    Lagrange multipliers tying T_s x_s = T_l x_l."""
    from pyyeti import frclim

    msgs = []
    wn = np.array([0.0, 10.0, 20.0, 30.0, 40.0])
    Ts = np.array([[0.30, 0.20, -0.15, 0.10, 0.05], [0.30, -0.10, 0.25, 0.05, -0.20]])
    fexc = np.array([0.30, 0.25, 0.10, -0.20, 0.15])
    load = model(LOADS["L3"], "dash")
    Tl = np.zeros((2, 3))
    Tl[0, 0] = Tl[1, 2] = 1.0
    freq = np.array([0.3, 1.1, 1.6, 3.2, 5.0, 9.0])
    for zname, zd in (("critical", 1.0), ("half", 0.5), ("light", 0.03)):
        b = np.diag(2 * np.array([0.0, zd, 0.03, 0.03, 0.03]) * wn)
        b[2, 3] = b[3, 2] = 0.25
        b[3, 4] = b[4, 3] = -0.5
        src = (np.eye(5), b, np.diag(wn**2))
        case = dict(part="modal", zeta=zname)
        ns, nl, nb = 5, 3, 2
        A = np.empty((nb, len(freq)), complex)
        Fi = np.empty((nb, len(freq)), complex)
        As = np.empty((nb, len(freq)), complex)
        Hs = []
        for j, f in enumerate(freq):
            w = 2 * np.pi * f
            Zs, Zl = cb_ref.dyn(*src, w), cb_ref.dyn(*load, w)
            big = np.zeros((ns + nl + nb, ns + nl + nb), complex)
            big[:ns, :ns] = Zs
            big[ns : ns + nl, ns : ns + nl] = Zl
            big[:ns, ns + nl :] = Ts.T
            big[ns : ns + nl, ns + nl :] = -Tl.T
            big[ns + nl :, :ns] = Ts
            big[ns + nl :, ns : ns + nl] = -Tl
            rhs = np.zeros(ns + nl + nb, complex)
            rhs[:ns] = fexc
            x = la.solve(big, rhs)
            A[:, j] = -w * w * (Ts @ x[:ns])
            Fi[:, j] = x[ns + nl :]
            As[:, j] = -w * w * (Ts @ la.solve(Zs, fexc))
            Hs.append(-w * w * Ts @ la.solve(Zs, Ts.T))
        try:
            with warnings.catch_warnings():
                warnings.simplefilter("ignore")
                r = frclim.ntfl([src[0], src[1], src[2], Ts], [load[0], load[1], load[2], Tl], As, freq)
        except Exception as e:  # noqa
            msgs.append((case, "ntfl with a modal source raised %r" % (e,), "modal-raise"))
            continue
        res.ev("ntfl/modal-source/%s" % zname)
        eA = np.abs(r.A - A).max() / np.abs(A).max()
        eF = np.abs(r.F - Fi).max() / np.abs(Fi).max()
        res.err("modal source A/F rel err", max(eA, eF))
        if not (eA <= 1e-7 and eF <= 1e-7):
            msgs.append((case, "modal source with dense recovery matrix (zeta=%s): interface acceleration / force differ from the directly coupled system (rel err %.3g, %.3g)" % (zname, eA, eF), "modal-AF"))
        for j in range(len(freq)):
            P = r.SAM[:, j, :] @ Hs[j]
            if np.abs(P - np.eye(nb)).max() > 1e-7 * max(1.0, np.linalg.cond(Hs[j])):
                msgs.append((case, "modal source (zeta=%s): SAM(%.3g Hz) is not the inverse of T H T^T (max dev %.3g)" % (zname, freq[j], np.abs(P - np.eye(nb)).max()), "modal-AM"))
                break
    return msgs


def check_errors(res):
    """documented refusal: incompatible frequency sizes"""
    from pyyeti import frclim

    msgs = []
    src = model(SOURCES["S2"], "dash")
    load = model(LOADS["L2"], "dash")
    S = form_inputs(src, [1], "drm")
    L = form_inputs(load, [0], "drm")
    freq = np.array([1.0, 2.0, 3.0])
    try:
        frclim.ntfl(S, L, np.ones((1, 2)), freq)
        msgs.append((dict(part="errors"), "ntfl accepted a free-acceleration with the wrong number of frequencies", "errors"))
    except ValueError:
        res.exit("ntfl: incompatible sizes (documented refusal)")
    res.ev("ntfl/errors")
    return msgs


# ------------------------------------------------------------------ driver
def shards(tier, seed):
    out = []
    nbs = (1, 2) if tier == "quick" else (1, 2, 3)
    for s, l, d, nb in itertools.product(SOURCES, LOADS, DAMP, nbs):
        out.append(dict(part="pair", src=s, load=l, damp=d, nb=nb))
    out.append(dict(part="errors"))
    out.append(dict(part="modal"))
    r = seed % len(out)
    return out[r:] + out[:r]


def _run(sh, res):
    if sh["part"] == "errors":
        return check_errors(res)
    if sh["part"] == "modal":
        m = check_modal_source(res)
        return [x for x in m if "zeta" not in sh or x[0].get("zeta") == sh["zeta"]]
    nb = sh.get("nb", len(sh.get("bs", [0])))
    m = check_pair(sh["src"], sh["load"], sh["damp"], nb, res)
    if "bs" in sh:
        keys = [k for k in ("bs", "bl", "fs", "fl", "routes", "zero_hz") if k in sh]
        m = [x for x in m if all(jsame(x[0].get(k), sh[k]) for k in keys)]
    return m


def run_shard(sh):
    res = Result()
    with warnings.catch_warnings():
        warnings.simplefilter("ignore")
        msgs = _run(sh, res)
    for case, m, kind in msgs:
        res.viol(case, m, kind=kind + "/" + str(case.get("fs")) + str(case.get("fl")))
    res.sample(sh)
    return res


def replay(case):
    res = Result()
    with warnings.catch_warnings():
        warnings.simplefilter("ignore")
        return [m for _, m, _ in _run(case, res)]


def required_sigs(tier):
    return ["ntfl/drm+drm/nb1/none", "ntfl/cb-bfirst+drm/nb2/dash", "ntfl/cb-inter+cb-blast/nb2/kprop", "ntfl/drm+cb-bfirst-trunc/nb1/dash", "calcAM/routes/nb2/dash"]
