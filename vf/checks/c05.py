"""C05 - rainflow: compiled C (built from the tree, both macro variants),
py_rain and cyclecount.rainflow agree bit for bit with ASTM E1049 on every
sequence over a small value alphabet up to a length bound (K1)."""
import itertools

import numpy as np

from vf import crain
from vf.core import Result, HarnessError, progress
from vf.ref.rain_ref import astm_rainflow

PROP = "C05"
LEVEL = "model_checking"
RULE = (
    "every sequence of length 2..L over k grid values (all tie patterns, repeats, monotone runs, "
    "non-alternating input) is run through c_rain(fast, built from /repo/pyyeti/rainflow/c_rain.c), "
    "c_rain(two-pass variant), py_rain, cyclecount.rainflow (ndarray, and pandas for L<=5), with and "
    "without offsets, and compared bit-exactly with an ASTM E1049 list-based reference; a case is "
    "distinct/non-trivial by its signature (length, #full cycles, set of decision events "
    "tie/lt/gt/half5/full met, strictly alternating or not, value alphabet)"
)
ASSUMPTIONS = [
    "numba is not installable offline: the definitions numba would decorate are executed as plain Python",
    "values between alphabet points and lengths beyond the bound are not explored",
    "gcc -O2 build of c_rain.c from the working tree (the in-tree .so is never used)",
]
ALPHABETS = {
    "int": None,  # 0..k-1
    "frac": [0.0, 0.1, 0.3, 0.7, 1.1],  # non-dyadic: real rounding in X<Y
}
_IMPLS = None


def bounds(tier):
    return {"quick": "int alphabet (L<=8,k=4)+(L<=6,k=5); frac alphabet (L<=6,k=4); pandas L<=5",
            "thorough": "int alphabet (L<=9,k=5)+(L<=12,k=3); frac alphabet (L<=8,k=5); pandas L<=6"}[tier]


def setup(tier, seed):
    global _IMPLS
    fast = crain.load("fast", install=True)
    two = crain.load("twopass")
    import pyyeti.cyclecount as cc
    import pyyeti.rainflow.py_rain as py_rain

    if cc.rain is not fast:
        raise HarnessError("cyclecount did not pick up the tree-built c_rain")
    _IMPLS = {
        "c_fast": fast.rainflow,
        "c_twopass": two.rainflow,
        "py_rain": py_rain.rainflow,
        "cyclecount": lambda p, getoffsets=False: cc.rainflow(p, getoffsets, use_pandas=False),
    }
    _IMPLS["_pandas"] = cc.rainflow
    if tier != "replay":
        _ASAN["fast"] = crain.build("fast", asan=True)
        _ASAN["twopass"] = crain.build("twopass", asan=True)


SHARD_TIMEOUT = 400
_ASAN = {}


def _asan_shard(sh):
    """ASan builds of both macro variants, driven in a subprocess (ASan must
    be preloaded into the interpreter)"""
    import os
    import subprocess
    import sys

    res = Result()
    so = _ASAN[sh["variant"]]
    lib = subprocess.run(["gcc", "-print-file-name=libasan.so"], capture_output=True, text=True).stdout.strip()
    env = dict(os.environ, LD_PRELOAD=lib, ASAN_OPTIONS="detect_leaks=0:abort_on_error=0:exitcode=77")
    drv = os.path.join(os.path.dirname(os.path.abspath(__file__)), "c05_asan_driver.py")
    p = subprocess.run([sys.executable, drv, so, str(sh["L"]), str(sh["k"])], env=env,
                       capture_output=True, text=True, timeout=SHARD_TIMEOUT - 100)
    lines = p.stdout.strip().splitlines()
    last = lines[-1] if lines else ""
    if p.returncode == 0 and last.startswith("DONE"):
        n = int(last.split()[1])
        res.ev("asan/%s/clean" % sh["variant"], n=n)
        res.counters["asan_sequences_" + sh["variant"]] += n
        return res
    seq = [int(x) for x in last.split()[1].split(",")] if last.startswith("SEQ") else None
    if seq is None or "AddressSanitizer" not in p.stderr:
        raise HarnessError("ASan driver failed without a report: rc=%s %s" % (p.returncode, p.stderr[-1500:]))
    rep = [l for l in p.stderr.splitlines() if "ERROR: AddressSanitizer" in l or "c_rain.c" in l][:4]
    res.viol({"seq": seq, "asan_variant": sh["variant"]}, "AddressSanitizer on c_rain(%s): %s" % (sh["variant"], " | ".join(rep)), kind="asan")
    return res


def teardown():
    crain.cleanup()


def _spaces(tier):
    if tier == "quick":
        return [("int", 8, 4), ("int", 6, 5), ("frac", 6, 4)]
    if tier == "replay":
        return []
    return [("int", 9, 5), ("int", 12, 3), ("frac", 8, 5)]


def shards(tier, seed):
    out = []
    for alpha, L, k in _spaces(tier):
        for n in range(2, L + 1):
            total = k ** n
            step = 20000
            for a in range(0, total, step):
                out.append({"alpha": alpha, "n": n, "k": k, "lo": a, "hi": min(total, a + step),
                            "pandas_max": 5 if tier == "quick" else 6, "seed": seed})
    L, k = (7, 4) if tier == "quick" else (9, 4)
    out = [{"kind": "asan", "variant": v, "L": L, "k": k} for v in ("fast", "twopass")] + out
    out = [{"kind": "dtype", "dtype": dt, "L": 5 if tier == "quick" else 6} for dt in DTYPE_ALPHABETS] + out
    out = [{"kind": "long", "name": nm} for nm in long_records() if tier != "quick" or not nm.endswith("70000") or nm.startswith(("grow", "walk"))] + out
    # deterministic rotation by seed (order only)
    r = seed % len(out)
    return out[r:] + out[:r]


def required_sigs(tier):
    return []


def _values(alpha, k):
    return list(range(k)) if alpha == "int" else ALPHABETS[alpha][:k]


def _same(a, b):
    return a.shape == b.shape and a.dtype == b.dtype and a.tobytes() == b.tobytes()


def check_seq(seq, pandas=False, meta=True, forms=False):
    """returns (list of violation messages, signature)"""
    msgs = []
    flags = set()
    rows = astm_rainflow(seq, flags)
    ref_rf = np.array([r[:3] for r in rows], dtype=float).reshape(-1, 3)
    ref_os = np.array([r[3:] for r in rows], dtype=np.int64).reshape(-1, 2)
    n = len(seq)
    # reference-independent invariants on the reference rows (then bit-equality carries them over)
    if 2 * sum(r[2] for r in rows) != n - 1:
        msgs.append("reference self-check: 2*sum(count) != n-1")
    arr = np.array(seq, dtype=float)
    outs = {}
    for name, fn in _IMPLS.items():
        if name.startswith("_"):
            continue
        try:
            rf = fn(arr)
            rf2, os2 = fn(arr, getoffsets=True)
        except Exception as e:  # noqa
            msgs.append("%s raised %r" % (name, e))
            continue
        rf = np.asarray(rf)
        outs[name] = (rf2, os2)
        if not _same(np.ascontiguousarray(rf, dtype=float), ref_rf):
            msgs.append("%s(getoffsets=False) != ASTM: got %s want %s" % (name, rf.tolist(), ref_rf.tolist()))
        if not _same(np.ascontiguousarray(rf2, dtype=float), ref_rf):
            msgs.append("%s(getoffsets=True) table != ASTM: got %s want %s" % (name, np.asarray(rf2).tolist(), ref_rf.tolist()))
        if not _same(np.ascontiguousarray(os2).astype(np.int64), ref_os):
            msgs.append("%s offsets != ASTM: got %s want %s" % (name, np.asarray(os2).tolist(), ref_os.tolist()))
        # invariants on this implementation's own output
        o = np.asarray(os2).astype(np.int64)
        t = np.asarray(rf2, dtype=float)
        if o.shape[0] == t.shape[0] and o.size and o.min() >= 0 and o.max() < n:
            s, e = arr[o[:, 0]], arr[o[:, 1]]
            if not (np.array_equal(np.abs(s - e) / 2, t[:, 0]) and np.array_equal((s + e) / 2, t[:, 1])):
                msgs.append("%s: amp/mean are not those of the points its offsets name" % name)
        elif o.size:
            msgs.append("%s: offsets out of range or wrong length" % name)
        if t.size and 2 * t[:, 2].sum() != n - 1:
            msgs.append("%s: 2*sum(count)=%s != n-1=%s" % (name, 2 * t[:, 2].sum(), n - 1))
    if arr.tolist() != [float(x) for x in seq]:
        msgs.append("the input array was modified by a rainflow call: %s -> %s" % ([float(x) for x in seq], arr.tolist()))
        arr = np.array(seq, dtype=float)
    # tables returned by earlier calls are still intact (no shared output buffers)
    for name, (t, o) in outs.items():
        if not (_same(np.ascontiguousarray(t, dtype=float), ref_rf) and _same(np.ascontiguousarray(o).astype(np.int64), ref_os)) and not any(m.startswith(name) for m in msgs):
            msgs.append("%s: a table returned earlier changed after later rainflow calls (shared output buffer)" % name)
    d = np.diff(arr)
    alternating = bool(n < 3 or (np.all(d != 0) and np.all(d[:-1] * d[1:] < 0)))
    if alternating and np.all(d != 0):
        big = (arr.max() - arr.min()) / 2
        for name, (t, _) in outs.items():
            t = np.asarray(t)
            if not np.any(t[:, 0] == big):
                msgs.append("%s: largest range %s not counted" % (name, big))
    if pandas:
        try:
            prf = _IMPLS["_pandas"](arr)
            prf2, pos2 = _IMPLS["_pandas"](arr, getoffsets=True)
            ok = (list(prf.columns) == ["amp", "mean", "count"] and list(pos2.columns) == ["start", "stop"]
                  and _same(np.ascontiguousarray(prf.values, dtype=float), ref_rf)
                  and _same(np.ascontiguousarray(prf2.values, dtype=float), ref_rf)
                  and _same(np.ascontiguousarray(pos2.values).astype(np.int64), ref_os))
            if not ok:
                msgs.append("cyclecount.rainflow pandas form != ASTM")
        except Exception as e:  # noqa
            msgs.append("cyclecount.rainflow pandas form raised %r" % (e,))
    if forms and not msgs:
        # the same sequence handed over in other array forms must give the same table (no assumption of contiguity/dtype)
        buf = np.empty(2 * n + 3)
        buf[:] = 777.0
        buf[1 : 1 + 2 * n : 2] = arr
        two = np.full((n, 3), -555.0, order="C")
        two[:, 1] = arr
        variants = {"strided": buf[1 : 1 + 2 * n : 2], "reversed-view": arr[::-1].copy()[::-1], "2d-column": two[:, 1], "list": [float(x) for x in arr],
                    "fortran-col": np.asfortranarray(np.column_stack((arr, arr + 1.0)))[:, 0]}
        try:
            import pandas as pd

            # array-likes with their own labels: positions count, not labels
            variants["series"] = pd.Series(arr)
            variants["series-reversed-index"] = pd.Series(arr, index=np.arange(n)[::-1])
            variants["series-offset-index"] = pd.Series(arr, index=np.arange(n) + 5)
            variants["series-tail-slice"] = pd.Series(np.concatenate(([9.0, -9.0], arr)))[2:]
        except ImportError:
            pass
        if float(arr.max()).is_integer() and float(arr.min()).is_integer():
            variants["int64"] = arr.astype(np.int64)
            variants["int32-strided"] = np.repeat(arr.astype(np.int32), 2)[::2]
        for name in ("c_fast", "c_twopass", "py_rain", "cyclecount"):
            fn = _IMPLS[name]
            for vn, x in variants.items():
                try:
                    t1 = np.asarray(fn(x))
                    t2, o2 = fn(x, getoffsets=True)
                except Exception as e:  # noqa
                    msgs.append("%s raised %r for input form %s" % (name, e, vn))
                    continue
                if not (_same(np.ascontiguousarray(t1, dtype=float), ref_rf) and _same(np.ascontiguousarray(t2, dtype=float), ref_rf)
                        and _same(np.ascontiguousarray(o2).astype(np.int64), ref_os)):
                    msgs.append("%s: input form '%s' gives a different table than the contiguous float64 array" % (name, vn))
    if meta and not msgs:
        # metamorphic: negate / exact shift / power-of-two scale, on C and Python
        for name in ("c_fast", "py_rain"):
            fn = _IMPLS[name]
            base_rf, base_os = outs[name]
            for tname, g, gt in (
                ("neg", lambda x: -x, lambda t: t * np.array([1.0, -1.0, 1.0])),
                ("shift", lambda x: x + 3.0, lambda t: t + np.array([0.0, 3.0, 0.0])),
                ("scale", lambda x: x * 0.25, lambda t: t * np.array([0.25, 0.25, 1.0])),
                # exact power-of-two scalings to the far ends of the double range (squares of ranges under/overflow there)
                ("scale-tiny", lambda x: x * 2.0 ** -700, lambda t: t * np.array([2.0 ** -700, 2.0 ** -700, 1.0])),
                ("scale-huge", lambda x: x * 2.0 ** 520, lambda t: t * np.array([2.0 ** 520, 2.0 ** 520, 1.0])),
            ):
                if tname == "shift" and not float(arr.max()).is_integer():
                    continue  # shift is exact only on the integer alphabet
                t2, o2 = fn(g(arr), getoffsets=True)
                if not (np.array_equal(np.asarray(t2), gt(np.asarray(base_rf))) and np.array_equal(o2, base_os)):
                    msgs.append("%s: metamorphic relation '%s' broken" % (name, tname))
    nfull = sum(1 for r in rows if r[2] == 1.0)
    sig = "n%d/full%d/%s/%s" % (n, nfull, "+".join(sorted(flags)) or "none", "alt" if alternating else "nonalt")
    return msgs, sig


DTYPE_ALPHABETS = {
    # values at and near the limits of every narrow dtype: ranges overflow / round if computed in the input's own dtype
    "int8": [-128, -1, 0, 127], "uint8": [0, 1, 200, 255], "int16": [-32768, 0, 5, 32767], "uint16": [0, 3, 40000, 65535],
    "int32": [-2147483648, 0, 7, 2147483647], "uint32": [0, 1, 3000000000, 4294967295], "int64": [-(2 ** 52), 0, 3, 2 ** 52],
    "uint64": [0, 1, 2 ** 52, 2 ** 53], "float32": [2.0 ** 26, -1.0, 2.0 ** 24, 0.0, 2.0 ** 25], "float16": [-1024.0, 0.5, 3.0, 2048.0],
    "bool": [False, True],
}


def check_dtype_seq(dt, seq):
    """the counting is defined on the VALUES of the series: an array of any real dtype must give the table of the same
    values held as float64 (all alphabet values are exactly representable in float64)"""
    msgs = []
    x = np.array(seq, dtype=dt)
    exact = [float(v) for v in x]
    rows = astm_rainflow(exact, set())
    ref_rf = np.array([r[:3] for r in rows], dtype=float).reshape(-1, 3)
    ref_os = np.array([r[3:] for r in rows], dtype=np.int64).reshape(-1, 2)
    snap = x.copy()
    for name in ("c_fast", "c_twopass", "py_rain", "cyclecount"):
        fn = _IMPLS[name]
        try:
            t1 = np.asarray(fn(x))
            t2, o2 = fn(x, getoffsets=True)
        except Exception as e:  # noqa
            msgs.append("%s raised %r for a %s array" % (name, e, dt))
            continue
        if not (_same(np.ascontiguousarray(t1, dtype=float), ref_rf) and _same(np.ascontiguousarray(t2, dtype=float), ref_rf)
                and _same(np.ascontiguousarray(o2).astype(np.int64), ref_os)):
            msgs.append("%s: a %s array gives a different table than the same values as float64: got %s want %s"
                        % (name, dt, np.asarray(t2).tolist(), ref_rf.tolist()))
    if not (x.dtype == snap.dtype and x.tobytes() == snap.tobytes()):
        msgs.append("the %s input array was modified" % dt)
    return msgs


def long_records():
    """deterministic long records (bounded menu, not a sample of a larger space): length-dependent behaviour such as
    buffer sizing, index width or stack depth needs hundreds to tens of thousands of points"""
    out = {}
    for n in (100, 1000, 5000, 70000):
        k = np.arange(n)
        out["walk%d" % n] = ((k * 7919) % 23 - 11).astype(float) + (k % 5 == 0) * 3.0
        out["grow%d" % n] = np.where(k % 2 == 0, 1.0, -1.0) * (1.0 + k)  # every range larger than the last: nothing closes until the end
        out["shrink%d" % n] = np.where(k % 2 == 0, 1.0, -1.0) * (n - k + 0.0)  # every range smaller: deep stack of open ranges
        out["plateau%d" % n] = np.repeat(((k[: n // 2 + 1] * 31) % 7).astype(float), 2)[:n]
    return out


def check_long(name):
    seq = long_records()[name]
    msgs, sig = check_seq(seq.tolist(), pandas=False, meta=len(seq) <= 5000, forms=False)
    return [m[:600] for m in msgs], sig


def run_shard(sh):
    if sh.get("kind") == "asan":
        return _asan_shard(sh)
    if sh.get("kind") == "long":
        res = Result()
        msgs, sig = check_long(sh["name"])
        res.ev("long/" + sh["name"].rstrip("0123456789") + "/n%d" % len(long_records()[sh["name"]]))
        for m in msgs:
            res.viol({"kind": "long", "name": sh["name"]}, m, kind="long-" + m.split(":")[0].split("(")[0][:30])
        res.sample(dict(sh))
        return res
    if sh.get("kind") == "dtype":
        res = Result()
        dt = sh["dtype"]
        vals = DTYPE_ALPHABETS[dt]
        for n in range(2, sh["L"] + 1):
            for seq in itertools.product(vals, repeat=n):
                for m in check_dtype_seq(dt, list(seq)):
                    res.viol({"kind": "dtype", "dtype": dt, "seq": [v if isinstance(v, (bool, float)) else int(v) for v in seq]}, m,
                             kind="dtype-%s-%s" % (dt, m.split(":")[0].split(" raised")[0]))
                res.ev("dtype/%s/n%d" % (dt, n))
        res.sample(dict(sh))
        return res
    res = Result()
    vals = _values(sh["alpha"], sh["k"])
    n, k = sh["n"], sh["k"]
    it = itertools.islice(itertools.product(vals, repeat=n), sh["lo"], sh["hi"])
    pandas = n <= sh["pandas_max"] and sh["alpha"] == "int"
    pick = ((sh["seed"] + 1) * 7919) % (sh["hi"] - sh["lo"])
    kept = None
    for i, seq in enumerate(it):
        progress({"seq": list(seq)})
        msgs, sig = check_seq(seq, pandas=pandas, forms=(n <= 6))
        # results handed out earlier must not change when the functions are called again (no shared work buffers)
        if kept is not None:
            for nm, (seq0, t0, o0, tb, ob) in kept.items():
                if not (t0.tobytes() == tb and o0.tobytes() == ob):
                    msgs.append("%s: the table/offsets returned for %s changed after a later call" % (nm, list(seq0)))
        if i % 3 == 0:
            kept = {}
            a_ = np.array(seq, dtype=float)
            for nm in ("c_fast", "c_twopass", "py_rain"):
                t0, o0 = _IMPLS[nm](a_, getoffsets=True)
                t1 = _IMPLS[nm](a_)
                kept[nm] = (seq, t0, o0, t0.tobytes(), o0.tobytes())
                kept[nm + "/nooffsets"] = (seq, t1, t1[:0], t1.tobytes(), t1[:0].tobytes())
        res.ev(sh["alpha"] + "/" + sig, outcome=sig)
        if i == pick and n >= 5:
            res.sample({"seq": list(seq), "signature": sig})
        for m in msgs:
            res.viol({"seq": list(seq)}, m, kind=m.split(":")[0].split("(")[0][:30])
    return res


def replay(case):
    if case.get("kind") == "long":
        return check_long(case["name"])[0]
    if case.get("kind") == "dtype":
        return check_dtype_seq(case["dtype"], case["seq"])
    if "asan_variant" in case:
        _ASAN[case["asan_variant"]] = crain.build(case["asan_variant"], asan=True)
        n = len(case["seq"])
        r = _asan_shard({"variant": case["asan_variant"], "L": n, "k": max(case["seq"]) + 1})
        return [v["msg"] for v in r.viols]
    msgs, _ = check_seq(case["seq"], pandas=len(case["seq"]) <= 6, forms=True)
    if not msgs:
        # aliasing across calls: replay the sequence followed by its neighbours
        a_ = np.array(case["seq"], dtype=float)
        for nm in ("c_fast", "c_twopass", "py_rain"):
            t0, o0 = _IMPLS[nm](a_, getoffsets=True)
            tb, ob = t0.tobytes(), o0.tobytes()
            for other in (a_[::-1].copy(), np.array([0.0, 1.0] * max(1, len(a_) // 2 + 1))[: len(a_)], np.arange(len(a_), dtype=float)):
                if len(other) >= 2:
                    _IMPLS[nm](other, getoffsets=True)
                    _IMPLS[nm](other)
            if t0.tobytes() != tb or o0.tobytes() != ob:
                msgs.append("%s: the table/offsets returned for %s changed after a later call" % (nm, case["seq"]))
    return msgs
