"""C19 - PSD and signal utilities conserve what they claim to conserve
(K1 grids; oracles R1 mpmath integrals, R2 brute-force band integrals and
brute-force nearest/previous sample)."""
import ast
import itertools
import math
import warnings

import numpy as np

from vf.core import REPO, Result

PROP = "C19"
LEVEL = "model_checking"
RULE = (
    "area/interp: EVERY specification of 1-3 segments over 12 slopes (incl. s=-1 exactly, s+1 = +-1e-6 inside and "
    "+-2e-5, +-1e-3 outside the special-case window) x 2 start levels x 2 start frequencies, both spec forms, 1-3 "
    "columns, NaN rows; rescale: input scale {linear df=1,.1,.25; 1/3-, 1/6-octave; log} x data patterns x output "
    "{n_oct 1,3,6,12; explicit linear and log vectors with every overlap situation at either end} x frange x "
    "extendends; resample: all (p,q) in 1..6^2 x n x pts x axis on 1-/2-/3-D data; fixtime: EVERY time-step sequence "
    "of length <= L over {dt, .9dt, 1.1dt, 2dt, 3dt, 0, -dt} x drop-out position x hold_previous_value/tol x base x "
    "input form.  Oracles: 40-digit integral of the log-log interpolant; brute-force overlap integrals per output "
    "band; brute-force nearest/previous sample on the cleaned record.  signature = routine / regime"
)
ASSUMPTIONS = [
    "inside the documented s=-1 window (|s+1| < 1e-5) area() is held to the truncation error of the documented approximation, 0.6*|s+1|*ln(f2/f1)",
    "rescale band edges transcribed from the docstring (centre-band scale; linear: +-df/2, else geometric means with end bands extended by the same ratio)",
    "fixtime ties: between two samples at different times that are equidistant the earlier one (as documented) when all times are exact integers; within 1e-9*dt of a tie either is accepted; samples with equal time stamps are interchangeable; record with no positive step is a documented refusal",
    "resample accuracy bound per pts calibrated on the pinned tree (3x the observed interior error of a 0.05*sr sinusoid)",
]
EXHAUSTIVE = True
ISOLATE_SHARDS = True  # rescale / resample / fixtime histories start from the import-time module state


def bounds(tier):
    return {"quick": "specs <= 3 segments; fixtime step sequences <= 5; resample (p,q) <= 6", "thorough": "specs <= 3 segments; fixtime step sequences <= 6; resample (p,q) <= 6"}.get(tier, "")


def _mp():
    import mpmath as mp

    mp.mp.dps = 40
    return mp


# ------------------------------------------------------------------ area / interp
SLOPES = ["-6dB", "s-1", "s-1+1e-6", "s-1-1e-6", "s-1+2e-5", "s-1-2e-5", "s-1+1e-3", "s-1-1e-3", "-3dB", "0", "+3dB", "+6dB"]
RATIOS = [7.5, 4.0, 10.0 / 3.0]


def slope_s(name):
    if name.endswith("dB"):
        return float(name[:-2]) / (10 * math.log10(2))
    if name == "0":
        return 0.0
    if name == "s-1":
        return -1.0
    return -1.0 + float(name[3:])


def build_spec(f0, p0, slopes):
    f = [f0]
    p = [p0]
    for i, sn in enumerate(slopes):
        f2 = f[-1] * RATIOS[i]
        s = slope_s(sn)
        if sn == "s-1":
            p2 = p[-1] * f[-1] / f2
        else:
            p2 = p[-1] * (f2 / f[-1]) ** s
        f.append(f2)
        p.append(p2)
    return np.array(f), np.array(p)


def seg_area_ref(f1, f2, p1, p2, mp):
    f1, f2, p1, p2 = (mp.mpf(float(x)) for x in (f1, f2, p1, p2))
    if p2 * f2 == p1 * f1:
        return p1 * f1 * mp.log(f2 / f1), mp.mpf(0)
    s1 = mp.log(p2 / p1) / mp.log(f2 / f1) + 1
    return p1 * f1 * mp.expm1(s1 * mp.log(f2 / f1)) / s1, s1


def check_area(f0, p0, slope_tuples, res):
    from pyyeti import psd

    mp = _mp()
    msgs = []
    for slopes in slope_tuples:
        nseg = len(slopes)
        f, p = build_spec(f0, p0, slopes)
        case = dict(part="area", f0=f0, p0=p0, slopes=list(slopes))
        spec = np.column_stack((f, p))
        got = psd.area(spec)
        res.ev("area/%d/%s" % (nseg, slopes[0]))
        ref = mp.mpf(0)
        tol = mp.mpf(0)
        segs = []
        for i in range(nseg):
            a, s1 = seg_area_ref(f[i], f[i + 1], p[i], p[i + 1], mp)
            ref += a
            segs.append(a)
            if s1 != 0 and abs(s1) < 1e-5:
                tol += abs(a) * (0.6 * abs(s1) * mp.log(f[i + 1] / f[i]) + mp.mpf(1e-10))
            else:
                tol += abs(a) * mp.mpf(2e-10)
        if got.shape != (1,) or not abs(mp.mpf(float(got[0])) - ref) <= tol:
            msgs.append((case, "area(%s) = %r, integral of the log-log interpolant is %s" % (spec.tolist(), got.tolist(), mp.nstr(ref, 17))))
            continue
        res.err("area rel err", abs(float(got[0]) - float(ref)) / float(ref))
        # additivity over segments and over columns, tuple form
        parts = sum(float(psd.area(spec[i : i + 2])[0]) for i in range(nseg))
        if abs(parts - got[0]) > 1e-13 * abs(got[0]):
            msgs.append((case, "area is not additive over segments: %r vs sum of parts %r" % (got[0], parts)))
        spec3 = np.column_stack((f, p, 2 * p, p[::-1]))
        g3 = psd.area(spec3)
        gt = psd.area((f, p))
        gt2 = psd.area((f, np.column_stack((p, p[::-1]))))
        rev = psd.area(np.column_stack((f, p[::-1])))
        if g3.shape != (3,) or g3[0] != got[0] or abs(g3[1] - 2 * got[0]) > 1e-13 * got[0] or g3[2] != rev[0] or gt.shape != (1,) or gt[0] != got[0] or gt2.shape != (2,) or gt2[1] != rev[0]:
            msgs.append((case, "area of a multi-column / tuple spec differs from the single-column results: %r %r %r vs %r, %r" % (g3.tolist(), gt.tolist(), gt2.tolist(), got.tolist(), rev.tolist())))
        # NaN frequencies are deleted
        fn = np.insert(f, 1, np.nan)
        pn = np.insert(p, 1, 7.0)
        gn = psd.area(np.column_stack((fn, pn)))
        if gn[0] != got[0]:
            msgs.append((case, "area with a NaN frequency row: %r vs %r" % (gn.tolist(), got.tolist())))
        # interp
        msgs += check_interp(case, f, p, res, mp)
    return msgs


def check_interp(case, f, p, res, mp):
    from pyyeti import psd

    msgs = []
    spec = np.column_stack((f, p))
    for form, sp in (("2d", spec), ("tuple", (f, p))):
        got = psd.interp(sp, f)
        want_shape = (len(f), 1) if form == "2d" else (len(f),)
        if got.shape != want_shape or not np.allclose(got.ravel(), p, rtol=1e-12, atol=0):
            msgs.append((case, "interp(%s form) at the break points returns %r, specification is %r" % (form, got.ravel().tolist(), p.tolist())))
    q = []
    for i in range(len(f) - 1):
        q += [f[i] * (f[i + 1] / f[i]) ** 0.25, 0.5 * (f[i] + f[i + 1])]
    q = np.array([f[0] * 0.5] + q + [f[-1] * 1.5])
    got = psd.interp(spec, q).ravel()
    gl = psd.interp(spec, q, linear=True).ravel()
    res.ev("interp/log+linear", n=2)
    if got[0] != 0 or got[-1] != 0 or gl[0] != 0 or gl[-1] != 0:
        msgs.append((case, "interp outside the specification range is not 0: %r %r" % (got[[0, -1]].tolist(), gl[[0, -1]].tolist())))
    for k, x in enumerate(q[1:-1]):
        i = k // 2
        f1, f2, p1, p2 = (mp.mpf(float(v)) for v in (f[i], f[i + 1], p[i], p[i + 1]))
        s = mp.log(p2 / p1) / mp.log(f2 / f1)
        ref = p1 * mp.exp(s * mp.log(mp.mpf(float(x)) / f1))
        if abs(mp.mpf(float(got[k + 1])) - ref) > 1e-12 * ref:
            msgs.append((case, "interp(log) at %r = %r, log-log interpolant is %s" % (x, got[k + 1], mp.nstr(ref, 17))))
        refl = p1 + (p2 - p1) * (mp.mpf(float(x)) - f1) / (f2 - f1)
        if abs(mp.mpf(float(gl[k + 1])) - refl) > 1e-12 * abs(refl):
            msgs.append((case, "interp(linear=True) at %r = %r, expected %s" % (x, gl[k + 1], mp.nstr(refl, 17))))
    # area of a refined spec (interp at extra points) equals the area of the spec
    if len(f) >= 2:
        fr = np.sort(np.concatenate((f, q[1:-1])))
        pr = psd.interp(spec, fr).ravel()
        a0 = psd.area(spec)[0]
        a1 = psd.area(np.column_stack((fr, pr)))[0]
        wide = any(abs(slope_s(s) + 1) < 1e-5 and s != "s-1" for s in case["slopes"])
        if abs(a1 - a0) > (3e-5 if wide else 1e-9) * a0:
            msgs.append((case, "area changes when the spec is refined with its own interpolated points: %r vs %r" % (a0, a1)))
    return msgs


# ------------------------------------------------------------------ rescale
def in_scales():
    from pyyeti import psd

    out = {
        "lin1": np.arange(1.0, 41.0),
        "lin.1": np.arange(10, 61) * 0.1,
        "linspace": np.linspace(2.0, 9.5, 31),
        "lin.25": np.arange(8, 60) * 0.25,
        "oct3": psd.get_freq_oct(3, (2.0, 60.0))[0],
        "oct6x": psd.get_freq_oct(6, (2.0, 60.0), exact=True)[0],
        "log": np.geomspace(1.5, 48.0, 17),
    }
    return out


def band_edges(fc):
    """documented centre-band convention"""
    fc = np.asarray(fc, float)
    d = np.diff(fc)
    if np.all(np.abs(d / d[0] - 1) < 1e-9):
        return fc - d[0] / 2, fc + d[0] / 2, "linear"
    mid = np.sqrt(fc[:-1] * fc[1:])
    lo = np.hstack((fc[0] * mid[0] / fc[1], mid))
    hi = np.hstack((mid, fc[-1] * fc[-1] / mid[-1]))
    return lo, hi, "log"


def out_specs(F):
    lo, hi = F[0], F[-1]
    span = hi - lo
    outs = [("n_oct", n) for n in (1, 3, 6, 12)]
    for name, vec in (
        ("lin_inside", np.linspace(lo + 0.2 * span, hi - 0.2 * span, 7)),
        ("lin_beyond_both", np.linspace(max(lo - 0.3 * span, 0.05 * lo), hi + 0.3 * span, 9)),
        ("lin_left_partial", np.linspace(lo * 0.9, lo + 0.5 * span, 6)),
        ("lin_right_partial", np.linspace(lo + 0.5 * span, hi * 1.07, 6)),
        ("lin_coarse", np.linspace(lo, hi, 4)),
        ("lin_fine", np.linspace(lo, hi, 97)),
        ("log_inside", np.geomspace(lo * 1.3, hi / 1.3, 6)),
        ("log_beyond_both", np.geomspace(lo / 1.9, hi * 1.9, 8)),
        ("log_fine", np.geomspace(lo, hi, 53)),
        ("same", F.copy()),
        ("two", np.array([lo + 0.3 * span, lo + 0.6 * span])),
        # exactly one band survives the trimming and it overhangs the data at BOTH ends
        ("log_one_band", np.array([lo / 40.0, math.sqrt(lo * hi), hi * 40.0])),
        ("lin_one_band", np.array([lo - 4.0 * span, 0.5 * (lo + hi), hi + 4.0 * span])),
    ):
        outs.append(("freq", name, vec))
    return outs


def check_rescale(scale, res):
    from pyyeti import psd

    msgs = []
    F = in_scales()[scale]
    n = len(F)
    FLin, FUin, kind = band_edges(F)
    k = np.arange(n)
    pats = {
        "const": np.ones(n),
        "ramp": 1.0 + k / 7.0,
        "rough": 0.5 + ((k * 7919) % 13) / 5.0,
        "two": np.column_stack((1.0 + k / 7.0, 2.0 + np.cos(k))),
    }
    for pname, P in pats.items():
        P2 = P.reshape(n, -1)
        total = (P2 * (FUin - FLin)[:, None]).sum(axis=0)
        for out in out_specs(F):
            for frange in (None, (F[0] * 1.5, F[-1] / 1.2)):
                for ext in (True, False):
                    case = dict(part="rescale", scale=scale, pat=pname, out=[out[0], out[1]], frange=frange, ext=ext)
                    kw = dict(extendends=ext)
                    if frange is not None:
                        kw["frange"] = frange
                    try:
                        Pin, Fin = P.copy(), F.copy()
                        fin = None if out[0] == "n_oct" else out[2].copy()
                        if out[0] == "n_oct":
                            Pout, Fctr, msv, ms = psd.rescale(Pin, Fin, n_oct=out[1], **kw)
                        else:
                            Pout, Fctr, msv, ms = psd.rescale(Pin, Fin, freq=fin, **kw)
                        if not (np.array_equal(Pin, P) and np.array_equal(Fin, F) and (fin is None or np.array_equal(fin, out[2]))):
                            msgs.append((case, "rescale modified its input arrays"))
                    except (ValueError, IndexError) as e:
                        # documented trimming can leave nothing
                        if "zero-size" in str(e) or "attempt to get" in str(e):
                            res.exit("rescale: no output band overlaps the data")
                            continue
                        if out[0] == "freq" and frange is not None and np.count_nonzero((out[2] >= frange[0]) & (out[2] <= frange[-1])) < 2:
                            res.exit("rescale: fewer than two output frequencies inside frange (band edges undefined)")
                            continue
                        msgs.append((case, "rescale raised %r" % (e,)))
                        continue
                    res.ev("rescale/%s/%s/%s/ext%d" % (kind, out[0] if out[0] == "n_oct" else out[1], "frange" if frange else "nofrange", ext))
                    m = _rescale_oracle(case, out, F, P2, FLin, FUin, total, Pout, Fctr, msv, ms, ext, frange, P.ndim == 1)
                    msgs += m
    return msgs


def _rescale_oracle(case, out, F, P2, FLin, FUin, total, Pout, Fctr, msv, ms, ext, frange, oned):
    msgs = []
    Fctr = np.asarray(Fctr, float)
    if oned:
        if np.ndim(Pout) != 1 or np.ndim(ms) != 1 or np.ndim(msv) != 0:
            return [(case, "1-D input gives outputs of shape %s %s %s" % (np.shape(Pout), np.shape(ms), np.shape(msv)))]
    Pout2 = np.asarray(Pout).reshape(len(Fctr), -1)
    ms2 = np.asarray(ms).reshape(len(Fctr), -1)
    msv1 = np.atleast_1d(msv)
    # candidate bands by the documented rule
    if out[0] == "n_oct":
        nn = out[1]
        fac = 2 ** (1 / (2 * nn))
        lo, hi = Fctr / fac, Fctr * fac
        kk = np.log2(Fctr / 1000.0) * nn
        if not np.allclose(kk, np.round(kk), atol=1e-9):
            msgs.append((case, "output centres are not on the exact 1/%d octave scale anchored at 1000: %r" % (nn, Fctr[:4].tolist())))
        s = 1.0 if frange is None else (frange[0] if frange[0] > 0 else 1.0)
        e = F[-1] if frange is None else min(frange[-1], F[-1])
        # 'outside' trim: every band that touches [s, e] and only those
        if not (lo[0] <= s * (1 + 1e-12) or Fctr[0] / fac**2 < s) or hi[0] < s * (1 - 1e-12) or lo[-1] > e * (1 + 1e-12) or hi[-1] * fac**2 / fac <= e * (1 - 1e-12) and False:
            msgs.append((case, "octave output bands [%g..%g] do not match the range [%g, %g]" % (lo[0], hi[-1], s, e)))
        if hi[-1] < e * (1 - 1e-12):
            msgs.append((case, "octave output stops at %g although data/frange extend to %g" % (hi[-1], e)))
        if not np.allclose(Fctr[1:] / Fctr[:-1], 2 ** (1 / nn), rtol=1e-12):
            msgs.append((case, "octave output centres are not contiguous"))
    else:
        cand = np.asarray(out[2], float)
        if frange is not None:
            cand = cand[(cand >= frange[0]) & (cand <= frange[-1])]
        clo, chi, _ = band_edges(cand) if len(cand) > 1 else (None, None, None)
        if clo is None:
            return msgs
        # returned centres must be a contiguous run of the candidates
        idx = [int(np.argmin(np.abs(cand - f))) for f in Fctr]
        if not np.array_equal(cand[idx], Fctr) or (len(idx) > 1 and not np.all(np.diff(idx) == 1)):
            return msgs + [(case, "returned centre frequencies are not a contiguous run of the requested ones: %r" % Fctr.tolist())]
        lo, hi = clo[idx], chi[idx]
        # every candidate band whose range meets [F[0], F[-1]] must be returned
        must = [i for i in range(len(cand)) if chi[i] >= F[0] * (1 + 1e-12) and clo[i] <= F[-1] * (1 - 1e-12)]
        if must and (must[0] < idx[0] or must[-1] > idx[-1]):
            msgs.append((case, "bands overlapping the data were dropped: returned %r of requested %r" % (Fctr.tolist(), cand.tolist())))
    # brute-force overlap integral
    nb = len(Fctr)
    for j in range(nb):
        ov = np.clip(np.minimum(hi[j], FUin) - np.maximum(lo[j], FLin), 0, None)
        want_ms = (P2 * ov[:, None]).sum(axis=0)
        width = hi[j] - lo[j]
        covered = min(hi[j], FUin[-1]) - max(lo[j], FLin[0])
        if ext and covered < width * (1 - 1e-12) and (j == 0 or j == nb - 1) and covered > 0:
            # only an end band is scaled up, and only on the side(s) where it is an end band
            c_lo = max(lo[j], FLin[0]) if j == 0 else lo[j]
            c_hi = min(hi[j], FUin[-1]) if j == nb - 1 else hi[j]
            cw = c_hi - c_lo
            want_psd = want_ms / cw
            want_ms = want_psd * width
        else:
            want_psd = want_ms / width
        tol = 1e-9 * max(np.abs(total).max() / max(width, 1e-300) * 1e-3, np.abs(want_psd).max(), 1e-300)
        if not np.allclose(Pout2[j], want_psd, rtol=1e-9, atol=1e-12 * np.abs(P2).max()):
            msgs.append((case, "band %d [%.6g, %.6g]: PSD %r, brute-force band integral/width gives %r" % (j, lo[j], hi[j], Pout2[j].tolist(), want_psd.tolist())))
            break
        if not np.allclose(ms2[j], want_ms, rtol=1e-9, atol=1e-12 * np.abs(total).max()):
            msgs.append((case, "band %d [%.6g, %.6g]: mean square %r, brute force %r" % (j, lo[j], hi[j], ms2[j].tolist(), want_ms.tolist())))
            break
    if not np.allclose(msv1, ms2.sum(axis=0), rtol=1e-12):
        msgs.append((case, "msv %r is not the sum of the band mean squares %r" % (msv1.tolist(), ms2.sum(axis=0).tolist())))
    if not ext and lo[0] <= FLin[0] * (1 + 1e-12) and hi[-1] >= FUin[-1] * (1 - 1e-12) and not np.allclose(msv1, total, rtol=1e-9):
        msgs.append((case, "output bands cover the input range but the mean square is not conserved: %r vs %r" % (msv1.tolist(), total.tolist())))
    return msgs


def check_rescale_history(res):
    """call-history invariance: a menu of rescale calls that share output band layouts (same octave scale, same
    upper frequency) but differ in resolution and lower coverage is executed forwards and backwards; every call
    of both passes is held to the brute-force band integral, and the two passes must agree call by call"""
    from pyyeti import psd

    msgs = []
    datasets = {
        "fine": np.linspace(0.5, 40.0, 159),
        "lin1": np.arange(1.0, 41.0),
        "from10": np.arange(10.0, 41.0),
        "coarse": np.arange(4.0, 41.0, 4.0),
        "from20": np.arange(20.0, 41.0, 0.5),
    }
    calls = []
    for dname in datasets:
        for n_oct in (1, 3, 6):
            for frange in (None, (5.0, 100.0), (20.0, 2000.0)):
                for ext in (True, False):
                    calls.append((dname, n_oct, frange, ext))
    results = {}
    for order_name, seq in (("forward", calls), ("backward", calls[::-1]), ("forward-again", calls)):
        for dname, n_oct, frange, ext in seq:
            F = datasets[dname]
            P = 1.0 + np.cos(np.arange(len(F))) ** 2
            FLin, FUin, kind = band_edges(F)
            total = (P.reshape(-1, 1) * (FUin - FLin)[:, None]).sum(axis=0)
            kw = dict(extendends=ext)
            if frange is not None:
                kw["frange"] = frange
            case = dict(part="rescale_hist", data=dname, n_oct=n_oct, frange=frange, ext=ext, order=order_name)
            try:
                Pout, Fctr, msv, ms = psd.rescale(P, F, n_oct=n_oct, **kw)
            except ValueError as e:
                if "zero-size" in str(e) or "attempt to get" in str(e):
                    res.exit("rescale: no output band overlaps the data")
                    continue
                msgs.append((case, "rescale raised %r" % (e,)))
                continue
            res.ev("rescale/history/%s" % order_name)
            msgs += _rescale_oracle(case, ("n_oct", n_oct), F, P.reshape(-1, 1), FLin, FUin, total, Pout, Fctr, msv, ms, ext, frange, True)
            key = (dname, n_oct, frange, ext)
            if key in results:
                a = results[key]
                if not (np.array_equal(a[0], Pout) and np.array_equal(a[1], Fctr) and np.array_equal(a[2], ms)):
                    msgs.append((case, "the same rescale call returns a different result depending on the calls made before it (pass %s)" % order_name))
            else:
                results[key] = (np.array(Pout), np.array(Fctr), np.array(ms))
    return msgs


# ------------------------------------------------------------------ resample
ACC = {3: 0.06, 5: 1.1e-6, 10: 1e-6}  # filled from calibration (3x observed), see check_resample_accuracy


def check_resample(p, q, res):
    from pyyeti import dsp

    msgs = []
    g = math.gcd(p, q)
    pr, qr = p // g, q // g
    for n in (1, 2, 3, 7, 20, 27, 33, 54):  # (27, 54: n*p/q is an integer whose float product overshoots for 7/3 and 7/6)
        for pts in (1, 3, 10):
            case = dict(part="resample", p=p, q=q, n=n, pts=pts)
            nout = -(-n * p // q)
            k = np.arange(n)
            x = np.sin(0.37 * k) + 0.01 * k * k
            xin = x.copy()
            r, fir = dsp.resample(xin, p, q, pts=pts, getfir=True)
            if not np.array_equal(xin, x):
                msgs.append((case, "resample modified its input"))
            res.ev("resample/%s/n%d" % ("up" if qr == 1 and pr > 1 else "same" if pr == qr else "down" if pr == 1 else "mixed", n))
            if r.shape != (nout,):
                msgs.append((case, "resample returns %d samples, ceil(n*p/q) = %d" % (r.shape[0], nout)))
                continue
            if len(fir) != 2 * pts * max(pr, qr) + 1:
                msgs.append((case, "FIR length %d, documented 2*pts*max(p,q)/gcd+1 = %d" % (len(fir), 2 * pts * max(pr, qr) + 1)))
            # constants are reproduced exactly
            for cval in (3.25, -1e6, 0.0):
                rc = dsp.resample(np.full(n, cval), p, q, pts=pts)
                if rc.shape != (nout,) or not np.all(rc == cval):
                    msgs.append((case, "constant %r is not reproduced exactly: %r" % (cval, rc[:5].tolist())))
            if qr == 1:
                if not np.allclose(r[::pr], x, rtol=0, atol=1e-12 * np.abs(x).max()):
                    msgs.append((case, "upsampling does not keep the original samples: max diff %g" % np.abs(r[::pr] - x).max()))
            # t output: positions of the returned samples
            t = 3.0 + 0.5 * k if n > 1 else None
            if t is not None:
                r2, tn = dsp.resample(x, p, q, pts=pts, t=t)
                want = 3.0 + 0.5 * np.arange(nout) * qr / pr
                if not np.array_equal(r2, r) or tn.shape != (nout,) or not np.allclose(tn, want, rtol=1e-13, atol=1e-13):
                    msgs.append((case, "resample(t=...) returns positions %r; sample k of the output is taken at t0 + k*dt*q/p = %r" % (tn[:5].tolist(), want[:5].tolist())))
            # axis handling on 2-D / 3-D data
            X2 = np.vstack((x, 2 * x + 1, -x))
            a = dsp.resample(X2, p, q, pts=pts)
            b = dsp.resample(X2.T, p, q, pts=pts, axis=0)
            X3 = np.stack((X2, X2 + 1.0))  # (2, 3, n)
            c = dsp.resample(np.moveaxis(X3, 2, 1), p, q, pts=pts, axis=1)  # (2, n, 3)
            d3 = dsp.resample(np.moveaxis(X3, 2, 0), p, q, pts=pts, axis=0)  # (n, 2, 3) -> (nout, 2, 3)
            X4 = np.stack((X3, -X3, X3 * 0.5))  # (3, 2, 3, n)
            d4 = dsp.resample(np.moveaxis(X4, 3, 1), p, q, pts=pts, axis=1)  # (3, n, 2, 3) -> (3, nout, 2, 3)
            d4n = dsp.resample(np.moveaxis(X4, 3, 1), p, q, pts=pts, axis=-3)
            if d3.shape != (nout, 2, 3) or d4.shape != (3, nout, 2, 3):
                msgs.append((case, "axis handling: 3-D axis=0 / 4-D axis=1 results have shapes %s %s, expected %s %s" % (d3.shape, d4.shape, (nout, 2, 3), (3, nout, 2, 3))))
            elif a.shape == (3, nout):
                want3 = np.stack((a, a + 1.0))  # (2, 3, nout)
                if not (np.allclose(np.moveaxis(d3, 0, 2), want3, rtol=1e-11, atol=1e-11) and np.allclose(np.moveaxis(d4, 1, 3)[0], want3, rtol=1e-11, atol=1e-11)
                        and np.allclose(np.moveaxis(d4, 1, 3)[1], -want3 + 0.0, rtol=1e-11, atol=1e-11) and np.array_equal(d4, d4n)):
                    msgs.append((case, "axis handling: resampling a 3-D array along axis 0 or a 4-D array along axis 1 does not resample each signal on its own"))
            ok = a.shape == (3, nout) and b.shape == (nout, 3) and c.shape == (2, nout, 3)
            if ok:
                ok = np.allclose(a[0], r, rtol=1e-12, atol=1e-12) and np.allclose(b.T, a, rtol=1e-12, atol=1e-12) and np.allclose(np.moveaxis(c, 1, 2)[0], a, rtol=1e-12, atol=1e-12)
                ok = ok and np.allclose(a[1], 2 * r + 1, rtol=1e-11, atol=1e-11) and np.allclose(np.moveaxis(c, 1, 2)[1], a + 1.0, rtol=1e-11, atol=1e-11)
            if not ok:
                msgs.append((case, "axis handling: 2-D/3-D results differ from the 1-D result (shapes %s %s %s)" % (a.shape, b.shape, c.shape)))
    # band-limited accuracy, interior points
    n = 240
    k = np.arange(n)
    f0 = 0.05 * min(1.0, pr / qr)  # cycles per sample of the lower of the two rates: 10% of the lower Nyquist
    x = np.sin(2 * np.pi * f0 * k + 0.3)
    for pts in (3, 5, 10):
        case = dict(part="resample", p=p, q=q, n=n, pts=pts, acc=True)
        r, tn = dsp.resample(x, p, q, pts=pts, t=k.astype(float))
        tt = np.arange(len(r)) * qr / pr
        want = np.sin(2 * np.pi * f0 * tt + 0.3)
        edge = int(math.ceil(pts * max(1.0, qr / pr) * pr / qr)) + 2
        sl = slice(edge, len(r) - edge)
        err = np.abs(r[sl] - want[sl]).max()
        res.err("resample interior err pts=%d" % pts, err)
        res.ev("resample/accuracy/pts%d" % pts)
        if err > ACC[pts]:
            msgs.append((case, "band-limited sinusoid (0.1 x lower Nyquist): interior error %.3g exceeds the window-length bound %.3g for pts=%d" % (err, ACC[pts], pts)))
    return msgs


# ------------------------------------------------------------------ fixtime
STEPS = [1.0, 2.0, 3.0, 0.0, -1.0, 0.9, 1.1]
_NUMBA_FUNCS = None


def numba_branch_funcs():
    """the definitions under `else:` of `if not HAVE_NUMBA:` in dsp.py, run as plain Python"""
    global _NUMBA_FUNCS
    if _NUMBA_FUNCS is None:
        src = open(REPO + "/pyyeti/dsp.py").read()
        tree = ast.parse(src)
        ns = {"np": np}
        for node in tree.body:
            if isinstance(node, ast.If) and isinstance(node.test, ast.UnaryOp) and getattr(node.test.operand, "id", "") == "HAVE_NUMBA":
                for fn in node.orelse:
                    if isinstance(fn, ast.FunctionDef):
                        fn.decorator_list = []
                        mod = ast.Module(body=[fn], type_ignores=[])
                        exec(compile(mod, "dsp_numba_branch", "exec"), ns)
        _NUMBA_FUNCS = {k: v for k, v in ns.items() if k.startswith("_find_closest")}
    return _NUMBA_FUNCS


def ref_pick(told, yold, tn, hold, tol, dt, exact):
    """set of acceptable values for output time tn"""
    d = np.abs(told - tn)
    if not hold:
        dmin = d.min()
        slack = 0.0 if exact else 1e-9 * dt
        cand = np.nonzero(d <= dmin + slack)[0]
        if exact and len(cand) > 1:
            # tie between different times: the earlier one; equal time stamps interchangeable
            tmin = told[cand].min()
            cand = cand[told[cand] == tmin]
        return set(yold[cand].tolist())
    lim = tn + tol * dt
    slack = 1e-9 * dt if (tol > 0 or not exact) else 0.0
    sure = np.nonzero(told <= lim - slack)[0]
    maybe = np.nonzero((told > lim - slack) & (told <= lim + slack))[0]
    out = set()
    if len(sure):
        tlast = told[sure].max()
        out |= set(yold[sure][told[sure] == tlast].tolist())
    else:
        out.add(yold[0])
        out |= set(yold[told == told[0]].tolist())
    out |= set(yold[maybe].tolist())
    return out


def check_fixtime(first, L, res, variants):
    from pyyeti import dsp

    msgs = []
    nb = numba_branch_funcs()
    for rest in itertools.product(STEPS, repeat=L - 1):
        steps = (first,) + rest
        t = np.concatenate(([5.0], 5.0 + np.cumsum(steps)))
        exact = all(float(s).is_integer() for s in steps)
        n = len(t)
        y = np.arange(n) + 1.0
        for var in variants:
            case = dict(part="fixtime", steps=list(steps), var=var)
            m = _fixtime_one(dsp, nb, t, y, var, exact, res)
            if m:
                msgs.append((case, m))
    return msgs


def _fixtime_one(dsp, nb, t, y, var, exact, res):
    hold = var.get("hold", False)
    tol = var.get("tol", 1e-3)
    sr = var.get("sr", 1.0)
    dt = 1.0 / sr
    drop = var.get("drop")
    y = y.copy()
    if drop is not None:
        if drop >= len(y):
            return None
        y[drop] = np.nan if var.get("dropkind") == "nan" else -1.40130e-45
    kw = dict(sr=sr, verbose=False, hold_previous_value=hold)
    if hold:
        kw["previous_value_tol"] = tol
    if var.get("base") is not None:
        kw["base"] = var["base"]
    form = var.get("form", "tuple")
    arg = (t, y) if form == "tuple" else np.column_stack((t, y))
    steps = np.diff(t)
    if var.get("getall"):
        kw["getall"] = True
    if var.get("keepdrops"):
        kw["deldrops"] = False
    info = None
    tsnap, ysnap = t.copy(), y.copy()
    try:
        with warnings.catch_warnings():
            warnings.simplefilter("ignore")
            out = dsp.fixtime(arg, **kw)
            if var.get("getall"):
                out, info = out
        if not (np.array_equal(t, tsnap) and np.array_equal(y, ysnap, equal_nan=True)):
            return "fixtime modified its input arrays"
    except Exception as e:  # noqa
        if isinstance(e, ValueError) and "no positive steps" in str(e) and not (steps > 0).any():
            res.exit("fixtime: no positive time step (documented refusal)")
            return None
        keep = ~(np.isnan(y) | (np.abs(y - -1.40130e-45) < 1.4e-47))
        tk = t[keep]
        if len(tk) < 2 or np.all(np.diff(np.sort(tk)) == 0):
            res.exit("fixtime: cleaned record has no time extent")
            return None
        return "fixtime raised %r" % (e,)
    if form == "tuple":
        tn, yn = out
    else:
        if not isinstance(out, np.ndarray) or out.ndim != 2 or out.shape[1] != 2:
            return "ndarray input does not give a 2-column ndarray"
        tn, yn = out[:, 0], out[:, 1]
    # cleaned record
    keep = ~(np.isnan(y) | (np.abs(y - -1.40130e-45) < 1.4e-47))
    if var.get("keepdrops"):
        keep = np.ones(len(y), bool)
    if info is not None:
        want_drops = np.nonzero(~keep)[0]
        got_drops = info.alldrops.dropouts if info.alldrops is not None else None
        if got_drops is None or not np.array_equal(np.sort(np.asarray(got_drops)), want_drops):
            return "fixinfo.alldrops.dropouts = %r, drop-outs are at input positions %s" % (None if got_drops is None else np.asarray(got_drops).tolist(), want_drops.tolist())
        if keep.any() and len(np.unique(t[keep])) > 1:
            if info.sr_stats is None or len(info.sr_stats) != 5 or info.tp is None or np.any(np.asarray(info.tp) < 0) or np.any(np.asarray(info.tp) >= keep.sum()):
                return "fixinfo.sr_stats / tp malformed: %r %r" % (info.sr_stats, info.tp)
    told, yold = t[keep], y[keep]
    if len(told) == 0:
        if not (np.array_equal(tn, np.sort(t)) or np.array_equal(tn, t)):
            return "record with only drop-outs: time vector changed"
        return None
    o = np.argsort(told, kind="stable")
    told, yold = told[o], yold[o]
    span = told[-1] - told[0]
    res.ev("fixtime/%s/%s/%s" % ("hold" if hold else "nearest", "exact" if exact else "jitter", "sorted" if np.all(steps >= 0) else "unsorted"))
    if span == 0:
        res.exit("fixtime: cleaned record has no time extent")
        return None
    Lw = int(round(span * sr)) + 1
    if len(tn) != Lw or len(yn) != Lw:
        return "output has %d samples, round(span*sr)+1 = %d" % (len(tn), Lw)
    # exactly uniform
    if Lw > 1:
        dev = np.abs((tn - tn[0]) - np.arange(Lw) * dt).max()
        if dev > 4 * np.finfo(float).eps * max(abs(tn).max(), 1.0):
            return "time base is not uniform: deviation %.3g from t0 + k*dt" % dev
    if var.get("base") is not None:
        kk = (var["base"] - tn[0]) * sr
        if abs(kk - round(kk)) > 1e-9:
            return "time base does not hit base=%r: (base - t0)*sr = %r" % (var["base"], kk)
    # alignment sanity: the new base stays within one step of the record's ends
    if abs(tn[0] - told[0]) > dt * (1 + 1e-9) or abs(tn[-1] - told[-1]) > dt * (1 + 1e-9) + (0.5 * dt if var.get("base") is not None else 0):
        return "time base [%r .. %r] is more than one step away from the record [%r .. %r]" % (tn[0], tn[-1], told[0], told[-1])
    ex = exact and var.get("base") is None and float(tn[0]).is_integer() and sr == 1.0
    for j in range(Lw):
        ok = ref_pick(told, yold, tn[j], hold, tol, dt, ex)
        if yn[j] not in ok:
            return "output sample %d at t=%r is %r; the %s input sample is %s (cleaned record t=%s y=%s, new time base %s)" % (
                j, tn[j], yn[j], "previous" if hold else "nearest", sorted(ok), told.tolist(), yold.tolist(), tn.tolist())
    # uniform input is returned unchanged
    if np.all(steps == dt) and len(told) == len(t) and var.get("base") is None:
        if not (np.allclose(tn, t, rtol=0, atol=1e-12) and np.array_equal(yn, y)):
            return "uniform input is changed: t %s y %s" % (tn.tolist(), yn.tolist())
    # the numba-branch selection functions (run as plain Python) select the same samples
    if nb and Lw > 0:
        f = nb["_find_closest_previous_times" if hold else "_find_closest_times"]
        idx = f(told - dt * tol, tn) if hold else f(told, tn)
        for j in range(Lw):
            ok = ref_pick(told, yold, tn[j], hold, tol, dt, ex)
            if yold[idx[j]] not in ok:
                return "numba-branch %s picks y=%r for t=%r; acceptable %s (record t=%s, new base %s)" % (f.__name__, yold[idx[j]], tn[j], sorted(ok), told.tolist(), tn.tolist())
        res.ev("fixtime/numba-branch-differential", n=0)
    return None


def fixtime_variants(tier):
    v = [
        dict(),
        dict(hold=True, tol=1e-3),
        dict(hold=True, tol=0.0),
        dict(form="ndarray"),
        dict(base=0.25),
        dict(hold=True, tol=1e-3, base=0.0),
    ]
    for d in range(0, 7 if tier != "quick" else 4):
        v.append(dict(drop=d))
        v.append(dict(drop=d, dropkind="nan", hold=True))
    v.append(dict(drop=1, getall=True))
    v.append(dict(drop=0, getall=True, hold=True))
    v.append(dict(drop=2, keepdrops=True))
    v.append(dict(getall=True, form="ndarray"))
    return v


def check_fixtime_refusals(res):
    """documented refusals and the only-drop-outs record"""
    from pyyeti import dsp

    msgs = []
    t = np.array([0.0, 1.0, 0.5, 2.0])
    y = np.arange(4.0)
    with warnings.catch_warnings():
        warnings.simplefilter("ignore")
        try:
            dsp.fixtime((t, y), sr=1, negmethod="stop", verbose=False)
            msgs.append((dict(part="fixtime_refusals", what="stop"), "negmethod='stop' accepted a time vector with a negative step"))
        except ValueError:
            res.exit("fixtime: negmethod='stop' (documented refusal)")
        for tol in (-0.1, 1.5):
            try:
                dsp.fixtime((np.arange(4.0), y), sr=1, hold_previous_value=True, previous_value_tol=tol, verbose=False)
                msgs.append((dict(part="fixtime_refusals", what="tol"), "previous_value_tol=%r accepted (documented range [0, 1])" % tol))
            except ValueError:
                res.exit("fixtime: previous_value_tol outside [0, 1] (documented refusal)")
        for bad in (np.zeros((3, 3)), (np.arange(3.0), np.arange(4.0))):
            try:
                dsp.fixtime(bad, sr=1, verbose=False)
                msgs.append((dict(part="fixtime_refusals", what="shape"), "malformed time/data input accepted"))
            except ValueError:
                res.exit("fixtime: malformed input (documented refusal)")
        yd = np.full(4, -1.40130e-45)
        out = dsp.fixtime((np.arange(4.0), yd), sr=1, verbose=False)
        if not (np.array_equal(out[0], np.arange(4.0)) and np.array_equal(out[1], yd)):
            msgs.append((dict(part="fixtime_refusals", what="alldrops"), "record with only drop-outs is not returned unchanged"))
    res.ev("fixtime/refusals")
    return msgs


def check_fixtime_long(res):
    """longer records: jitter, a gap, a time shift, outlier time, dropouts; sr other than 1"""
    from pyyeti import dsp

    msgs = []
    nb = numba_branch_funcs()
    for sr in (1.0, 20.0, 0.5):
        dt = 1 / sr
        for n in (12, 40):
            k = np.arange(n, dtype=float)
            base = 100.0 + k * dt
            recs = {
                "uniform": base,
                "jitter": base + dt * 0.05 * np.cos(1.7 * k),
                "gap": np.where(k >= n // 2, base + 7 * dt, base),
                "shift": np.where(k >= n // 3, base + 0.4 * dt, base),
                "halfshift": np.where(k >= n // 3, base + 0.5 * dt, base),
                "swap": np.concatenate((base[:3], base[3:5][::-1], base[5:])),
                "dup": np.concatenate((base[:4], base[3:4], base[4:])),
                "outlier": np.concatenate((base[:-1], [base[-1] + 50 * n * dt])),
            }
            for name, t in recs.items():
                y = np.arange(len(t)) + 1.0
                for var in (dict(), dict(hold=True), dict(hold=True, tol=0.0), dict(base=100.0 + 0.3 * dt), dict(drop=5), dict(form="ndarray")):
                    v = dict(var, sr=sr)
                    case = dict(part="fixtime_long", rec=name, n=n, var=v)
                    if name == "outlier":
                        # the outlier time is deleted (delouttimes) when beyond 3 sigma: compare on the kept record
                        tt = t
                        mn, sg = tt.mean(), 3 * tt.std(ddof=1)
                        pv = (tt < mn - sg) | (tt > mn + sg)
                        if not pv.any():
                            continue
                        m = _fixtime_one(dsp, nb, t[~pv], y[~pv], v, False, res)
                        m2 = _fixtime_one_compare_deleted(dsp, t, y, pv, v)
                        if m2:
                            msgs.append((case, m2))
                    else:
                        exact = sr == 1.0 and name in ("uniform", "gap", "swap", "dup")
                        m = _fixtime_one(dsp, nb, t, y, v, exact, res)
                        if not m and name in ("gap", "shift", "halfshift") and v.get("base") is None and v.get("drop") is None:
                            m = _fixtime_alignment(dsp, t, y, v, dt)
                    if m:
                        msgs.append((case, m))
    return msgs


def _fixtime_alignment(dsp, t, y, v, dt):
    """notes 9-12: the new time base is aligned with the longest section of good time steps, so that
    section must come through unchanged (times and values)"""
    good = np.abs(np.diff(t) - dt) <= 1e-9 * dt
    best, cur, start = (0, 0), 0, 0
    for i, g in enumerate(good):
        if g:
            if cur == 0:
                start = i
            cur += 1
            if cur > best[1] - best[0]:
                best = (start, start + cur)
        else:
            cur = 0
    sec = slice(best[0], best[1] + 1)
    kw = dict(sr=v["sr"], verbose=False, hold_previous_value=v.get("hold", False))
    if v.get("hold"):
        kw["previous_value_tol"] = v.get("tol", 1e-3)
    arg = (t, y) if v.get("form", "tuple") == "tuple" else np.column_stack((t, y))
    with warnings.catch_warnings():
        warnings.simplefilter("ignore")
        out = dsp.fixtime(arg, **kw)
    tn, yn = (out[0], out[1]) if isinstance(out, tuple) else (out[:, 0], out[:, 1])
    for ti, yi in zip(t[sec], y[sec]):
        j = int(np.argmin(np.abs(tn - ti)))
        if abs(tn[j] - ti) > 1e-9 * dt * max(1.0, abs(ti)) or (yn[j] != yi and not (v.get("hold") and v.get("tol") == 0.0)):
            return "the longest section of good time steps (t=%r..%r) is not reproduced: sample (%r, %r) maps to output (%r, %r)" % (t[sec][0], t[sec][-1], ti, yi, tn[j], yn[j])
    return None


def _fixtime_one_compare_deleted(dsp, t, y, pv, v):
    kw = dict(sr=v["sr"], verbose=False, hold_previous_value=v.get("hold", False))
    if v.get("hold"):
        kw["previous_value_tol"] = v.get("tol", 1e-3)
    if v.get("base") is not None:
        kw["base"] = v["base"]
    yy = y.copy()
    if v.get("drop") is not None:
        yy[v["drop"]] = -1.40130e-45
    with warnings.catch_warnings():
        warnings.simplefilter("ignore")
        a = dsp.fixtime((t, yy), **kw)
        b = dsp.fixtime((t[~pv], yy[~pv]), **kw)
    if not (np.array_equal(a[0], b[0]) and np.array_equal(a[1], b[1])):
        return "record with a >3-sigma outlier time gives a different result than the record without it"
    return None


# ------------------------------------------------------------------ driver
def check_forms(res):
    """specifications, PSD tables, signals and time vectors held in any integer dtype (signed, unsigned, narrow), in
    lists/tuples, Fortran order or strided views give the result of the same VALUES as C-ordered float64; the arguments
    are never modified"""
    from pyyeti import dsp, psd

    msgs = []
    Fq = np.array([10, 20, 40, 100, 250], dtype=np.int64)
    Pv = np.array([[200, 3], [10, 3], [250, 12], [1, 12], [254, 1]], dtype=np.int64)
    yi = np.array([200, 10, 250, 1, 254, 3, 128, 90, 253, 2, 2, 77, 30, 180, 60, 240], dtype=np.int64)
    ti = np.array([3, 4, 5, 7, 8, 9, 10, 12, 13, 14, 15, 16, 18, 19, 20, 21], dtype=np.int64)
    DT = [np.uint8, np.uint16, np.uint32, np.uint64, np.int16, np.int32, np.int64]

    def cast(a, dt):
        if dt == "list":
            return a.tolist()
        if dt == "fortran":
            return np.asfortranarray(a.astype(float))
        if dt == "strided":
            big = np.full(tuple(2 * n + 1 for n in a.shape), 7.0)
            big[tuple(slice(1, None, 2) for _ in a.shape)] = a
            return big[tuple(slice(1, None, 2) for _ in a.shape)]
        return a.astype(dt)

    spec2 = np.column_stack((Fq, Pv))
    calls = {
        "area(2d spec)": lambda dt: [psd.area(cast(spec2, dt) if dt != "list" else np.array(spec2.tolist()))],
        "area((f, p))": lambda dt: [psd.area((cast(Fq, dt), cast(Pv[:, 0], dt)))],
        "interp(2d spec)": lambda dt: [psd.interp(cast(spec2, dt) if dt != "list" else np.array(spec2.tolist()), [10.0, 15.0, 77.0, 250.0])],
        "interp((f, p), linear)": lambda dt: [psd.interp((cast(Fq, dt), cast(Pv, dt)), [12.5, 40.0, 200.0], linear=True)],
        "interp(freq as dtype)": lambda dt: [psd.interp(spec2.astype(float), cast(np.array([10, 15, 77, 250]), dt))],
        "rescale(P, F)": lambda dt: list(psd.rescale(cast(Pv, dt), cast(Fq * 2, dt) if dt not in (np.uint8,) else cast(Fq * 2, np.uint16))[:2]),
        "rescale(freq=...)": lambda dt: list(psd.rescale(Pv[:, 0].astype(float), Fq.astype(float), freq=cast(np.array([12, 30, 90, 200]), dt))[:2]),
        "resample(3/2)": lambda dt: [dsp.resample(cast(yi, dt), 3, 2)],
        "resample(2-D, axis 0, 2/3)": lambda dt: [dsp.resample(cast(np.column_stack((yi, yi[::-1])), dt), 2, 3, axis=0, pts=5)],
        "fixtime((t, y))": lambda dt: list(dsp.fixtime((cast(ti, dt), cast(yi, dt)), sr=1.0, verbose=False)),
        "fixtime(2d)": lambda dt: list(dsp.fixtime(cast(np.column_stack((ti, yi)), dt) if dt != "list" else np.array(np.column_stack((ti, yi)).tolist()), sr=1.0, verbose=False)),
    }
    for cname, fn in calls.items():
        try:
            base = [np.asarray(a, float) for a in fn(float)]
        except Exception as e:  # noqa
            msgs.append((dict(part="forms", call=cname, form="float64"), "%s raised %r for float64 input" % (cname, e)))
            continue
        for dt in DT + ["list", "fortran", "strided"]:
            nm = dt if isinstance(dt, str) else np.dtype(dt).name
            case = dict(part="forms", call=cname, form=nm)
            try:
                got = [np.asarray(a, float) for a in fn(dt)]
            except Exception as e:  # noqa
                msgs.append((case, "%s raised %r for input given as %s" % (cname, e, nm)))
                continue
            res.ev("forms/%s/%s" % (cname, nm))
            ok = all(a.shape == b.shape and np.allclose(a, b, rtol=1e-13, atol=0, equal_nan=True) for a, b in zip(got, base))
            if not ok:
                msgs.append((case, "%s: input given as %s gives a different result than the same values as float64 (max diff %.3g)"
                             % (cname, nm, max([float(np.nanmax(np.abs(a - b))) for a, b in zip(got, base) if a.shape == b.shape and a.size] + [float("nan")][:0] or [float("nan")]))))
    return msgs


def shards(tier, seed):
    out = [dict(part="forms")]
    for f0, p0 in itertools.product((20.0, 0.5), (0.01, 3.0)):
        for nseg in (1, 2):
            out.append(dict(part="area", f0=f0, p0=p0, nseg=nseg))
        for s0 in SLOPES:
            out.append(dict(part="area3", f0=f0, p0=p0, s0=s0))
    for sc in ("lin1", "lin.1", "linspace", "lin.25", "oct3", "oct6x", "log"):
        out.append(dict(part="rescale", scale=sc))
    for p, q in itertools.product(range(1, 8), repeat=2):
        out.append(dict(part="resample", p=p, q=q))
    Lmax = 5 if tier == "quick" else 6
    for L in range(1, Lmax + 1):
        for first in STEPS:
            if L >= 5:
                for second in STEPS:
                    out.append(dict(part="fixtime", first=first, second=second, L=L))
            else:
                out.append(dict(part="fixtime", first=first, L=L))
    out.append(dict(part="fixtime_long"))
    out.append(dict(part="fixtime_refusals"))
    out.append(dict(part="rescale_hist"))
    r = seed % len(out)
    return out[r:] + out[:r]


def _same(a, b):
    """equality after a JSON round trip (replay files turn tuples into lists)"""
    from vf.core import jdumps

    return jdumps(a) == jdumps(b)


def _run(sh, res):
    part = sh["part"]
    if part == "forms":
        m = check_forms(res)
        if "call" in sh:
            m = [x for x in m if x[0].get("call") == sh["call"] and x[0].get("form") == sh["form"]]
        return m
    if part == "area":
        if "slopes" in sh:
            return check_area(sh["f0"], sh["p0"], [tuple(sh["slopes"])], res)
        return check_area(sh["f0"], sh["p0"], itertools.product(SLOPES, repeat=sh["nseg"]), res)
    if part == "area3":
        return check_area(sh["f0"], sh["p0"], [(sh["s0"],) + r for r in itertools.product(SLOPES, repeat=2)], res)
    if part == "rescale":
        m = check_rescale(sh["scale"], res)
        if "pat" in sh:
            m = [x for x in m if all(_same(x[0].get(k), sh[k]) for k in ("pat", "out", "frange", "ext"))]
        return m
    if part == "resample":
        m = check_resample(sh["p"], sh["q"], res)
        if "n" in sh:
            m = [x for x in m if all(_same(x[0].get(k), sh.get(k)) for k in ("n", "pts", "acc"))]
        return m
    if part == "fixtime":
        if "steps" in sh:
            from pyyeti import dsp

            steps = sh["steps"]
            t = np.concatenate(([5.0], 5.0 + np.cumsum(steps)))
            exact = all(float(s).is_integer() for s in steps)
            m = _fixtime_one(dsp, numba_branch_funcs(), t, np.arange(len(t)) + 1.0, sh["var"], exact, res)
            return [(sh, m)] if m else []
        variants = fixtime_variants("thorough" if sh["L"] > 5 else "quick") if sh["L"] < 6 else fixtime_variants("thorough")
        if "second" in sh:
            msgs = []
            for rest in itertools.product(STEPS, repeat=sh["L"] - 2):
                steps = (sh["first"], sh["second"]) + rest
                t = np.concatenate(([5.0], 5.0 + np.cumsum(steps)))
                exact = all(float(s).is_integer() for s in steps)
                from pyyeti import dsp

                for var in variants:
                    m = _fixtime_one(dsp, numba_branch_funcs(), t, np.arange(len(t)) + 1.0, var, exact, res)
                    if m:
                        msgs.append((dict(part="fixtime", steps=list(steps), var=var), m))
            return msgs
        return check_fixtime(sh["first"], sh["L"], res, variants)
    if part == "fixtime_refusals":
        return check_fixtime_refusals(res)
    if part == "rescale_hist":
        m = check_rescale_history(res)
        if "data" in sh:
            m = [x for x in m if all(_same(x[0].get(k), sh.get(k)) for k in ("data", "n_oct", "frange", "ext", "order"))]
        return m
    if part == "fixtime_long":
        m = check_fixtime_long(res)
        if "rec" in sh:
            m = [x for x in m if x[0].get("rec") == sh["rec"] and x[0].get("n") == sh["n"] and x[0].get("var") == sh["var"]]
        return m
    raise ValueError(part)


def run_shard(sh):
    res = Result()
    with warnings.catch_warnings():
        warnings.simplefilter("ignore")
        msgs = _run(sh, res)
    for case, m in msgs:
        import re

        kind = case.get("part", "") + "/" + re.sub(r"[0-9.]+", "#", m.split(":")[0][:60].split(" = ")[0])[:40] + "/" + str(case.get("var", ""))[:40]
        res.viol(case, m, kind=kind)
    res.sample(sh)
    return res


def replay(case):
    res = Result()
    with warnings.catch_warnings():
        warnings.simplefilter("ignore")
        return [m for _, m in _run(case, res)]


def required_sigs(tier):
    return [
        "area/1/s-1", "area/3/s-1+1e-6", "interp/log+linear", "rescale/linear/n_oct/nofrange/ext1", "rescale/log/lin_beyond_both/nofrange/ext0",
        "resample/up/n7", "resample/mixed/n33", "resample/accuracy/pts10", "fixtime/nearest/exact/unsorted", "fixtime/hold/jitter/sorted",
    ]
