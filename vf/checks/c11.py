"""C11 - OUTPUT4 / OUTPUT2 readers decode every physical encoding produced by
independent encoders (bound byte-for-byte to Nastran-written sample files);
listings match reads; subset reads == filtered full reads; skipping leaves the
reader exactly at the next block (K1 grid + K2 over skip/read sequences)."""
import itertools
import os
import shutil
import tempfile
import warnings

import numpy as np
import scipy.sparse as sp

from vf.core import jsame, Result, HarnessError, REPO
from vf.ref import op4_enc, op2_enc

PROP = "C11"
LEVEL = "model_checking"
RULE = (
    "independent encoders (vf/ref/op4_enc.py, op2_enc.py; no pyYeti code) first reproduce the Nastran-written sample "
    "files byte for byte (harness error otherwise).  OP4: matrices (all sparsity patterns <=3x2, 8x1 columns with every "
    "composition of every non-zero run into strings, cut-over sizes 2999/3000/3001) x precision{single,double} x "
    "real/complex x key width{32,64} x endian x layout{dense (start at or before first non-zero), bigmat, nonbigmat} x "
    "trailer convention{Nastran, pyYeti} ; ASCII: E/D exponent x (numlen,perline) in {(16,5),(23,3),(24,3),(26,3)} x '1P,' "
    "present/absent x I16 header x name padding.  OP2: precision x key width x endian x header label x EOF key x string "
    "partitions x table records split into every composition of parts x all orders of {matrix,table,matrix} with "
    "repeated names.  Oracle: decoded == encoded (bit-exact / exact decimal), dir/directory == encoder ground truth "
    "incl. byte ranges, every subset of names == filtered full read, and (K2) after every skip/read sequence of length "
    "<=3 the file offset equals the encoder-recorded start of the next block.  signature = format/variant"
)
ASSUMPTIONS = [
    "encoders are trusted only as far as they reproduce the sample files (all 36 binary/ASCII OP4 variants and 8 OP2 files, "
    "incl. 64-bit keys) - checked on every run",
    "64-bit OP2 *matrix* blocks have no Nastran sample: encoded by analogy with 64-bit tables and 64-bit OP4",
]
_DIR = None
SHARD_TIMEOUT = 300


def bounds(tier):
    return {"quick": "patterns <=3x2, 6x1 column compositions, 3 skip/read steps", "thorough": "patterns <=3x3 (every 3rd), 8x1 column compositions"}.get(tier, "")


def scratch():
    global _DIR
    if _DIR is None or not os.path.isdir(_DIR):
        base = "/dev/shm" if os.path.isdir("/dev/shm") else None
        _DIR = tempfile.mkdtemp(prefix="vf_c11_%d_" % os.getpid(), dir=base)
    return _DIR


def setup(tier, seed):
    bad = op4_enc.selftest(os.path.join(REPO, "pyyeti", "tests", "nastran_op4_data"))
    bad += op2_enc.selftest(os.path.join(REPO, "pyyeti", "tests", "nastran_op2_data"))
    if bad:
        raise HarnessError("encoder no longer reproduces the Nastran sample files: %s" % bad[:3])


def compositions(n):
    """all ways of cutting a run of length n into consecutive pieces"""
    out = []
    for cuts in itertools.product((0, 1), repeat=n - 1):
        parts, cur = [], 1
        for c in cuts:
            if c:
                parts.append(cur)
                cur = 1
            else:
                cur += 1
        parts.append(cur)
        out.append(parts)
    return out


VALS = [1.5, -2.25, 3.125e10, -4.0e-7, 0.1, 7.0, -9.75, 1e-30, 123456.789]


def mat_from_pattern(r, c, pattern, cplx, single):
    M = np.zeros((r, c), complex if cplx else float)
    k = 0
    for j in range(c):
        for i in range(r):
            if pattern >> (j * r + i) & 1:
                v = VALS[k % len(VALS)]
                if cplx:
                    v = complex(v, VALS[(k + 4) % len(VALS)] if k % 2 else 0.0)
                M[i, j] = v
                k += 1
    if single:
        M = M.astype(np.complex64 if cplx else np.float32).astype(complex if cplx else float)
    return M


def same(a, b):
    a, b = np.ascontiguousarray(a), np.ascontiguousarray(b)
    if a.shape != b.shape:
        return False
    return bool(np.array_equal(np.asarray(a, dtype=complex), np.asarray(b, dtype=complex)))  # exact, but -0.0 == 0.0


def dense(X):
    return X.toarray() if sp.issparse(X) else np.asarray(X)


# ------------------------------------------------------------------ OP4
def check_op4_file(data, truth, expected, res, tag, binary):
    """data: bytes/text of a file with len(truth) matrices; returns messages"""
    from pyyeti.nastran import op4

    msgs = []
    fname = os.path.join(scratch(), "f_%d.op4" % os.getpid())
    with open(fname, "wb") as f:
        f.write(data if isinstance(data, bytes) else data.encode())
    names = [t["name"] for t in truth]
    try:
        with warnings.catch_warnings():
            warnings.simplefilter("ignore")
            ln, lm, lf, lt = op4.load(fname, into="list")
            ln2, lm2, _, _ = op4.load(fname, into="list", sparse=True)
            ln3, lm3, _, _ = op4.load(fname, into="list", sparse=None)
            dn, ds, df, dt = op4.dir(fname, verbose=False)
    except Exception as e:  # noqa
        return ["%s: reader raised %r" % (tag, e)]
    if ln != names or dn != names:
        msgs.append("%s: names %s / dir %s, encoded %s" % (tag, ln, dn, names))
        return msgs
    for i, t in enumerate(truth):
        if (lf[i], lt[i]) != (t["form"], t["mtype"]) or (df[i], dt[i]) != (t["form"], t["mtype"]):
            msgs.append("%s: form/type of %s: read %s/%s dir %s/%s encoded %s/%s" % (tag, t["name"], lf[i], lt[i], df[i], dt[i], t["form"], t["mtype"]))
        if tuple(ds[i]) != tuple(t["shape"]):
            msgs.append("%s: dir size %s, encoded %s" % (tag, ds[i], t["shape"]))
        for lbl, X in (("dense", lm[i]), ("sparse", lm2[i]), ("auto", lm3[i])):
            if not same(dense(X), expected[i]):
                msgs.append("%s: matrix %s decoded (%s read) differs from the encoded content" % (tag, t["name"], lbl))
                break
        # container kind: ndarray by default, scipy sparse on request, and per matrix as stored when sparse=None
        kinds = (sp.issparse(lm[i]), sp.issparse(lm2[i]), sp.issparse(lm3[i]))
        want_kinds = (False, True, t.get("layout", "dense") != "dense")
        if kinds != want_kinds:
            msgs.append("%s: matrix %s (#%d, stored %s) comes back as %s for sparse=(False, True, None); expected %s"
                        % (tag, t["name"], i, t.get("layout"), ["sparse" if k else "ndarray" for k in kinds], ["sparse" if k else "ndarray" for k in want_kinds]))
    # every subset of names == filtered full read
    uniq = sorted(set(names))
    for k in range(1, len(uniq) + 1):
        for sub in itertools.combinations(uniq, k):
            try:
                with warnings.catch_warnings():
                    warnings.simplefilter("ignore")
                    sn, sm, sf, st = op4.load(fname, namelist=list(sub), into="list")
            except Exception as e:  # noqa
                msgs.append("%s: namelist=%s raised %r" % (tag, sub, e))
                continue
            want = [i for i, nm in enumerate(names) if nm in sub]
            if sn != [names[i] for i in want] or not all(same(dense(a), expected[i]) for a, i in zip(sm, want)):
                msgs.append("%s: reading the subset %s differs from filtering a full read" % (tag, sub))
    # K2: reader position after every skip/read sequence (binary: exact byte offsets)
    if binary and len(truth) >= 1:
        for seq in itertools.product(("skip", "read"), repeat=min(3, len(truth))):
            o = op4.OP4()
            try:
                with warnings.catch_warnings():
                    warnings.simplefilter("ignore")
                    o._op4open_read(fname)
                    for i, act in enumerate(seq):
                        if act == "skip":
                            nm, sz, _, _ = o._loadop4_binary(listonly=True)
                        else:
                            nm, X, _, _ = o._loadop4_binary()
                        pos = o._fileh.tell()
                        res.transitions += 1
                        if nm != truth[i]["name"] or pos != truth[i]["stop"]:
                            msgs.append("%s: after %s of matrix %d the reader is at byte %d (name %s); next block starts at %d"
                                        % (tag, act, i, pos, nm, truth[i]["stop"]))
                            break
                        if act == "read" and not same(dense(X), expected[i]):
                            msgs.append("%s: matrix read after %s differs" % (tag, seq[:i]))
                            break
                res.states += 1
            except Exception as e:  # noqa
                msgs.append("%s: skip/read sequence %s raised %r" % (tag, seq, e))
            finally:
                o._op4close()
    return msgs


def op4_matrices(tier):
    q = tier == "quick"
    out = []
    shapes = [(1, 1), (2, 1), (1, 2), (2, 2), (3, 1), (3, 2)] + ([] if q else [(2, 3), (3, 3)])
    for r, c in shapes:
        n = r * c
        step = 1 if n <= 6 else 3
        for p in range(1, 2 ** n, step):
            out.append(("pat", r, c, p))
    return out


def string_variants(M, maxrun, limit):
    """list of functions giving a string partition: default (maximal runs) + every composition of every run"""
    from vf.ref.op4_enc import runs

    variants = [None]
    cols = [runs(M[:, j] != 0) for j in range(M.shape[1])]
    allcomps = []
    for j, rs in enumerate(cols):
        per = []
        for s, L in rs:
            if L <= maxrun:
                per.append([(s, parts) for parts in compositions(L)])
            else:
                per.append([(s, [L])])
        allcomps.append(per)
    # cross product over runs of the first non-empty column only (other columns keep maximal runs)
    for j, per in enumerate(allcomps):
        if per:
            for combo in itertools.islice(itertools.product(*per), 1, limit):
                def fn(mi, jj, col, combo=combo, j=j):
                    if jj != j or mi == 1:  # matrix #1 is the transpose: different sparsity, keep maximal runs
                        return op4_enc.default_strings(col)
                    out = []
                    for s, parts in combo:
                        for L in parts:
                            out.append((s, L))
                            s += L
                    return out
                variants.append(fn)
            break
    # strings that include zeros (a string spanning a gap)
    def spanning(mi, jj, col):
        nz = np.nonzero(col)[0]
        return [(int(nz[0]), int(nz[-1] - nz[0] + 1))] if nz.size else []
    variants.append(spanning)
    return variants


def run_op4_case(case, tier, res):
    kind = case[0]
    msgs_all = []
    if kind == "rows65536":
        # matrices with 65535 / 65536 / 65537 rows in the sparse layouts: up to 65535 rows the row count is positive and the
        # strings are in the short form; from 65536 rows on the strings are BIGMAT strings whether the row count is written
        # negative or positive
        _, L = case
        nrow = L + 2
        A = np.zeros((nrow, 2))
        A[3:40, 0] = np.arange(1, 38) * 0.5
        A[nrow - 5 : nrow, 0] = [1.5, -2.0, 3.0, -4.5, 6.0]
        A[0, 1] = -3.0
        A[nrow - 1, 1] = 7.25
        mats = [dict(name="BIG", A=A, form=2, mtype=2), dict(name="SMALL", A=A[:5].copy(), form=2, mtype=2)]
        exp = [A, A[:5].copy()]
        variants = [("dense", False)] + ([("nonbigmat", False)] if nrow <= 65535 else []) + [("bigmat", False)] + ([("bigmat", True)] if nrow >= 65536 else [])
        for (layout, pos), endian in itertools.product(variants, ("<", ">")):
            data, truth = op4_enc.encode_binary(mats, endian=endian, layout=[layout, "dense"], big_positive=pos)
            tag = "op4 binary %s %d rows %s%s" % (endian, nrow, layout, " (positive row count)" if pos else "")
            msgs = check_op4_file(data, truth, exp, res, tag, True)
            res.ev("op4rows/%d/bin/%s/%s" % (nrow, layout, "pos" if pos else "neg"))
            res.traces += 1
            msgs_all += [(dict(fmt="bin", endian=endian, layout=layout, big_positive=pos, rows=nrow), m) for m in msgs]
        for layout, pos in variants:
            txt, truth, expd = op4_enc.encode_ascii([dict(m) for m in mats], 23, 16, 3, "E", [layout, "dense"], big_positive=pos)
            tag = "op4 ascii %d rows %s%s" % (nrow, layout, " (positive row count)" if pos else "")
            msgs = check_op4_file(txt, truth, expd, res, tag, False)
            res.ev("op4rows/%d/asc/%s/%s" % (nrow, layout, "pos" if pos else "neg"))
            res.traces += 1
            msgs_all += [(dict(fmt="asc", layout=layout, big_positive=pos, rows=nrow), m) for m in msgs]
        return msgs_all
    if kind == "pat":
        _, r, c, p = case
        builds = [(mt, mat_from_pattern(r, c, p, mt in (3, 4), mt in (1, 3))) for mt in (1, 2, 3, 4)]
    elif kind == "col":
        _, n, p = case
        builds = [(mt, mat_from_pattern(n, 1, p, mt in (3, 4), mt in (1, 3))) for mt in (2, 3)]
    else:  # cut-over sizes
        _, L = case
        builds = []
        for mt in (1, 2, 4):
            A = np.zeros((L + 2, 2), complex if mt == 4 else float)
            v = np.arange(1, L + 1) * 0.5
            A[1 : 1 + L, 0] = v * ((1 - 0.5j) if mt == 4 else 1.0)
            A[0, 1] = -3.0
            if mt == 1:
                A = A.astype(np.float32).astype(float)
            builds.append((mt, A))
    for mtype, M in builds:
        form = 2 if M.shape[0] != M.shape[1] else 1
        mats = [dict(name="ALPHA", A=M, form=form, mtype=mtype), dict(name="B2", A=M.T.copy(), form=2 if M.shape[0] != M.shape[1] else 1, mtype=mtype),
                dict(name="ALPHA", A=-M, form=form, mtype=mtype), dict(name="AL", A=M * 2, form=form, mtype=mtype)]  # "AL" is a prefix of "ALPHA"
        exp = [M, M.T.copy(), -M, M * 2]
        svs = string_variants(M, 5, 40 if tier != "quick" else 12) if kind != "cut" else [None]
        MIXED = (("dense", "bigmat", "nonbigmat", "dense"), ("nonbigmat", "dense", "dense", "bigmat"), ("bigmat", "nonbigmat", "dense", "nonbigmat"))
        for endian, bit64, layout, trailer in itertools.product(("<", ">"), (False, True), ("dense", "nonbigmat", "bigmat") + MIXED, ("nastran", "pyyeti")):
            if bit64 and trailer == "pyyeti":
                continue
            for vi, sv in enumerate(svs if layout != "dense" else [None, "early"]):
                if isinstance(layout, tuple) and vi > 0:
                    break
                kw = {}
                if layout == "dense" and sv == "early":
                    kw["dense_start"] = lambda mi, j, s: max(0, s - 1)
                elif layout != "dense":
                    kw["strings"] = sv
                data, truth = op4_enc.encode_binary(mats, endian=endian, bit64=bit64, layout=layout, trailer=trailer, **kw)
                lname = layout if isinstance(layout, str) else "mixed(%s)" % ",".join(layout)
                tag = "op4 binary %s %dbit %s trailer=%s strings#%d mtype%d" % (endian, 64 if bit64 else 32, lname, trailer, vi, mtype)
                msgs = check_op4_file(data, truth, exp, res, tag, True)
                res.ev("op4bin/%s/%d/%s/%s/m%d/%s" % (endian, 64 if bit64 else 32, lname, trailer, mtype, "default" if vi == 0 else "split"))
                res.traces += 1
                msgs_all += [(dict(fmt="bin", endian=endian, bit64=bit64, layout=list(layout) if isinstance(layout, tuple) else layout, trailer=trailer, sv=vi, mtype=mtype), m) for m in msgs]
        if kind == "cut":
            continue
        # (width, values per line): the maximal fill of 80 columns and announced counts below it (the reader must
        # follow the count announced in the matrix header, not the line width)
        # ... including announced formats whose lines are longer than 80 columns (4E23.16, 5E20.12, 6E16.9, 3E30.17), files whose
        # matrices use different layouts, and files whose matrices announce different number formats
        for dchar, (numlen, perline), onep, layout in itertools.product(("E", "D"), ((16, 5), (23, 3), (24, 3), (26, 3), (23, 2), (16, 4), (20, 3), (23, 4), (20, 5), (16, 6), (30, 3), (8, 10), ("p", 0)),
                                                                        (True, False), ("dense", "nonbigmat", "bigmat") + MIXED[:2]):
            permat = numlen == "p"
            if permat:
                numlen, perline = 16, 5
            if isinstance(layout, tuple) and (numlen, perline) not in ((16, 5), (23, 4)):
                continue
            for int16, pad in ((False, " "), (True, " "), (False, "\x00")):
                if int16 and (dchar == "D" or not onep):
                    continue
                digits = numlen - 7
                b64 = False
                mm = [dict(m, mtype=m["mtype"]) for m in mats]
                if permat:
                    for m_, f_ in zip(mm, ((16, 9, 5), (24, 17, 3), (16, 9, 5), (23, 16, 4))):
                        m_["fmt"] = f_
                txt, truth, expd = op4_enc.encode_ascii(mm, numlen, digits, perline, dchar, layout, bit64=b64, onep=onep, int16=int16, name_pad=pad)
                if mtype in (1, 3):
                    pass
                lname = layout if isinstance(layout, str) else "mixed(%s)" % ",".join(layout)
                tag = "op4 ascii %s%d.%d x%d%s %s 1P=%s I16=%s pad=%r mtype%d" % (dchar, numlen, digits, perline, " (format differs per matrix)" if permat else "", lname, onep, int16, pad, mtype)
                msgs = check_op4_file(txt, truth, expd, res, tag, False)
                res.ev("op4asc/%s/%d%s/%s/1P%d/I16%d/pad%d/m%d" % (dchar, numlen, "x%d" % perline if not permat else "permat", lname, onep, int16, pad != " ", mtype))
                res.traces += 1
                msgs_all += [(dict(fmt="asc", dchar=dchar, numlen=numlen, perline=perline, permat=permat, onep=onep, layout=list(layout) if isinstance(layout, tuple) else layout, int16=int16, pad=pad, mtype=mtype), m)
                             for m in msgs]
    return msgs_all


# ------------------------------------------------------------------ OP2
def check_op2_file(data, truth, blocks, res, tag):
    from pyyeti.nastran import op2

    msgs = []
    fname = os.path.join(scratch(), "f_%d.op2" % os.getpid())
    with open(fname, "wb") as f:
        f.write(data)
    try:
        with warnings.catch_warnings():
            warnings.simplefilter("ignore")
            o = op2.OP2(fname)
    except Exception as e:  # noqa
        return ["%s: OP2() raised %r" % (tag, e)]
    try:
        d = o.directory(verbose=False)
        got = [(s.name, s.start, s.stop, 1 if s.dbtype > 0 else 0) for s in o.dblist]
        want = [(t["name"], t["start"], t["stop"], 1 if t["kind"] == "matrix" else 0) for t in truth]
        if got != want:
            msgs.append("%s: directory %s != encoder ground truth %s" % (tag, got, want))
            return msgs
        for s, t, blk in zip(o.dblist, truth, blocks):
            if tuple(s.trailer) != tuple(t["trailer"]):
                msgs.append("%s: trailer of %s: %s != %s" % (tag, t["name"], s.trailer, t["trailer"]))
            if blk["kind"] == "matrix" and tuple(s.size) != (blk["trailer"][2], blk["trailer"][1]):
                msgs.append("%s: directory size of %s wrong" % (tag, t["name"]))
        # K2 over file positions: from EVERY position of interest (file start, before / at / inside / at the end of every
        # block, end of file) next_db_info() names the first block that starts after the position and goto_next() lands there
        fsize = len(data)
        posns = {0, 1, fsize}
        for t in truth:
            posns |= {max(t["start"] - 1, 0), t["start"], t["start"] + 1, (t["start"] + t["stop"]) // 2, t["stop"] - 1, t["stop"]}
        for p in sorted(posns):
            want_t = next((t for t in truth if t["start"] > p), None)
            o.set_position(p)
            nd = o.next_db_info()
            res.transitions += 1
            if (nd is None) != (want_t is None) or (nd is not None and (nd.name, nd.start) != (want_t["name"], want_t["start"])):
                msgs.append("%s: next_db_info() at byte %d names %s, the next block after that position is %s"
                            % (tag, p, None if nd is None else (nd.name, nd.start), None if want_t is None else (want_t["name"], want_t["start"])))
                break
            o.set_position(p)
            o.goto_next()
            pos = o._fileh.tell()
            # "end-of-file" when there is no next block: the end of the last data block (the file's trailing end-of-data
            # marker follows it) or the physical end of the file
            if pos not in ((want_t["start"],) if want_t else (truth[-1]["stop"], fsize)):
                msgs.append("%s: goto_next() from byte %d lands at %d, expected %d" % (tag, p, pos, want_t["start"] if want_t else truth[-1]["stop"]))
                break
        # walking the file with next_db_info()/goto_next() from the top visits every block once, in order
        o.set_position(0)
        walked = []
        while len(walked) <= len(truth) + 1:
            nd = o.next_db_info()
            if nd is None:
                break
            walked.append((nd.name, nd.start))
            o.goto_next()
        want_walk = [(t["name"], t["start"]) for t in truth if t["start"] > 0]
        if walked != want_walk:
            msgs.append("%s: walking the file with next_db_info()/goto_next() from byte 0 visits %s, the blocks are %s" % (tag, walked, want_walk))
        # full reads
        with warnings.catch_warnings():
            warnings.simplefilter("ignore")
            allm = o.rdop2mats(which="all")
            last = o.rdop2mats()
            first = o.rdop2mats(which=0)
        mnames = [t["name"] for t in truth if t["kind"] == "matrix"]
        for nm in set(mnames):
            idx = [i for i, t in enumerate(truth) if t["kind"] == "matrix" and t["name"] == nm]
            exp = [op2_enc.dense_of(blocks[i]) for i in idx]
            if len(allm.get(nm, [])) != len(exp) or not all(same(a, b) for a, b in zip(allm[nm], exp)):
                msgs.append("%s: rdop2mats(which='all')[%s] differs from the encoded matrices" % (tag, nm))
            elif not (same(last[nm], exp[-1]) and same(first[nm], exp[0])):
                msgs.append("%s: rdop2mats which=-1/0 for repeated name %s wrong" % (tag, nm))
        # named subsets
        uniq = sorted(set(mnames))
        for k in range(1, min(3, len(uniq)) + 1):
            for sub in itertools.combinations(uniq, k):
                sub = list(sub)
                with warnings.catch_warnings():
                    warnings.simplefilter("ignore")
                    m = o.rdop2mats(names=sub)
                if sorted(m.keys()) != sorted(sub):
                    msgs.append("%s: rdop2mats(names=%s) returned %s (a named read must equal the filtered full read)" % (tag, sub, list(m.keys())))
                elif not all(same(m[nm], last[nm]) for nm in sub):
                    msgs.append("%s: rdop2mats(names=%s) returns different matrices than the full read" % (tag, sub))
        # tables: records and positions
        for i, (t, blk) in enumerate(zip(truth, blocks)):
            nxt = truth[i + 1]["start"] if i + 1 < len(truth) else t["stop"]
            if blk["kind"] == "table":
                for mode in ("read", "skip", "goto"):
                    o.set_position(t["start"])
                    nm, tr, typ = o.rdop2nt()
                    if nm != t["name"] or typ != 0:
                        msgs.append("%s: rdop2nt at table %s returned %s type %s" % (tag, t["name"], nm, typ))
                        break
                    if mode == "goto":
                        o.goto_next()
                    else:
                        for parts in blk["records"]:
                            if mode == "read":
                                rec = o.rdop2record("bytes")
                                if rec != b"".join(parts):
                                    msgs.append("%s: table %s record differs from the encoded bytes (%d parts)" % (tag, t["name"], len(parts)))
                                    break
                            else:
                                o.skipop2record()
                        else:
                            eot, key = o.rdop2eot()
                            if not eot:
                                msgs.append("%s: end of table %s not detected after its records" % (tag, t["name"]))
                    pos = o._fileh.tell()
                    res.transitions += 1
                    if pos != nxt:
                        msgs.append("%s: after %s of table %s the reader is at %d, next block starts at %d" % (tag, mode, t["name"], pos, nxt))
                # int form on the first record
                o.set_position(t["start"])
                o.rdop2nt()
                ints = o.rdop2record()
                isz = o._ibytes
                want = np.frombuffer(b"".join(blk["records"][0]), o._endian.replace("=", "<") + ("i8" if isz == 8 else "i4"))
                if ints is None or not np.array_equal(ints, want):
                    msgs.append("%s: rdop2record() (ints) of table %s differs" % (tag, t["name"]))
            else:
                for mode in ("read", "skip", "goto"):
                    o.set_position(t["start"])
                    nm, tr, typ = o.rdop2nt()
                    if mode == "read":
                        X = o.rdop2matrix(tr)
                        if not same(X, op2_enc.dense_of(blk)):
                            msgs.append("%s: rdop2matrix of %s differs" % (tag, t["name"]))
                    elif mode == "skip":
                        o.skipop2matrix()
                    else:
                        o.goto_next()
                    pos = o._fileh.tell()
                    res.transitions += 1
                    if pos != nxt:
                        msgs.append("%s: after %s of matrix %s the reader is at %d, next block starts at %d" % (tag, mode, t["name"], pos, nxt))
        # history invariant: results returned earlier stay valid after any later read on the same reader object
        kept = []
        en = o._endian.replace("=", "<")
        for form, dt, bp in ((None, "i%d" % o._ibytes, o._ibytes), ("uint", "u%d" % o._ibytes, o._ibytes), ("single", "f4", 4), ("double", "f8", 8)):
            for useN in (True, False):
                for i, (t, blk) in enumerate(zip(truth, blocks)):
                    if blk["kind"] != "table":
                        continue
                    o.set_position(t["start"])
                    o.rdop2nt()
                    for parts in blk["records"]:
                        raw = b"".join(parts)
                        if len(raw) % bp:
                            o.skipop2record()
                            continue
                        rec = o.rdop2record(form, len(raw) // bp if useN else 0)
                        res.transitions += 1
                        kept.append((rec, np.frombuffer(raw, en + dt), "rdop2record(%r, N=%s) of table %s" % (form, "len" if useN else 0, t["name"])))
        for i, (t, blk) in enumerate(zip(truth, blocks)):
            if blk["kind"] == "matrix":
                o.set_position(t["start"])
                nm, tr, typ = o.rdop2nt()
                kept.append((o.rdop2matrix(tr), op2_enc.dense_of(blk), "rdop2matrix of %s" % t["name"]))
        for got_, want_, what in kept:
            ok = got_ is not None and (same(got_, want_) if np.ndim(want_) == 2 else (np.shape(got_) == want_.shape and np.asarray(got_).tobytes() == want_.tobytes()))
            if not ok:
                msgs.append("%s: %s is no longer the encoded content after later reads on the same OP2 object (result aliased or wrong)" % (tag, what))
                break
        res.states += len(truth)
    except Exception as e:  # noqa
        import traceback

        msgs.append("%s: reader raised %r (%s)" % (tag, e, traceback.format_exc().splitlines()[-3].strip()))
    finally:
        try:
            o._fileh.close()
        except Exception:
            pass
    return msgs


def run_op2(tier, res, part):
    msgs_all = []
    M1 = mat_from_pattern(3, 2, 0b101101, False, False)
    M2 = mat_from_pattern(4, 3, 0b110011101011, False, False)
    colp = list(range(1, 2 ** (6 if tier == "quick" else 8), 1))
    if part == "matrix-strings":
        for p in colp:
            for mtype in (1, 2, 3, 4):
                A = mat_from_pattern(6 if tier == "quick" else 8, 1, p, mtype > 2, bool(mtype & 1))
                svs = string_variants(A, 5, 40)
                for vi, sv in enumerate(svs):
                    st = (lambda j, col, sv=sv: sv(0, j, col)) if sv is not None else None
                    blocks = [op2_enc.matrix_block("KAA", A, mtype, strings=st), op2_enc.table_block("TAB1", [[np.arange(5, dtype="<i4").tobytes()]]),
                              op2_enc.matrix_block("KAA", -A, mtype, strings=st)]
                    for endian, bit64 in itertools.product(("<", ">"), (False, True)):
                        if endian == ">":
                            blocks[1] = op2_enc.table_block("TAB1", [[np.arange(5).astype(">i8" if bit64 else ">i4").tobytes()]])
                        else:
                            blocks[1] = op2_enc.table_block("TAB1", [[np.arange(5).astype("<i8" if bit64 else "<i4").tobytes()]])
                        data, truth = op2_enc.encode(blocks, endian, bit64, header=None)
                        tag = "op2 %s %dbit mtype%d strings#%d" % (endian, 64 if bit64 else 32, mtype, vi)
                        msgs = check_op2_file(data, truth, blocks, res, tag)
                        res.ev("op2mat/%s/%d/m%d/%s" % (endian, 64 if bit64 else 32, mtype, "default" if vi == 0 else "split"))
                        res.traces += 1
                        msgs_all += [(dict(part=part, p=p, mtype=mtype, sv=vi, endian=endian, bit64=bit64), m) for m in msgs]
    else:
        # block sequences, header label, EOF key, table record compositions
        for endian, bit64 in itertools.product(("<", ">"), (False, True)):
            it = endian + ("i8" if bit64 else "i4")
            recs = [np.arange(1, 8).astype(it).tobytes(), np.arange(100, 103).astype(it).tobytes(), np.arange(3000, 6005).astype(it).tobytes()]
            isz = 8 if bit64 else 4
            for comp in compositions(4) + [[7]]:
                # first record (7 words) split as far as the composition allows, second in one part, third at the 3000-word cut-over
                parts0, p = [], 0
                w = recs[0]
                sizes = comp if sum(comp) == 7 else [c for c in comp] + [7 - sum(comp)]
                for c in sizes:
                    parts0.append(w[p * isz : (p + c) * isz])
                    p += c
                tab = op2_enc.table_block("GEOM1", [parts0, [recs[1]], [recs[2][: 2999 * isz], recs[2][2999 * isz :]]], trailer=(102, 7, 3, 0, 0, 0, 0))
                mA = op2_enc.matrix_block("MAA", M1, 2)
                mB = op2_enc.matrix_block("MAA", M2 * (1 + 0.5j), 4, tid=103)
                for order in itertools.permutations((mA, tab, mB)):
                    for header, eof in itertools.product((None, ((9, 27, 26), "XXXXXXXX")), (0, 1)):
                        blocks = list(order)
                        data, truth = op2_enc.encode(blocks, endian, bit64, header=header, eof_keys=eof)
                        tag = "op2 %s %dbit parts=%s order=%s header=%s eof=%d" % (endian, 64 if bit64 else 32, sizes, [b["name"] for b in blocks], header is not None, eof)
                        msgs = check_op2_file(data, truth, blocks, res, tag)
                        res.ev("op2seq/%s/%d/hdr%d/eof%d/%s" % (endian, 64 if bit64 else 32, header is not None, eof, "".join(b["kind"][0] for b in blocks)))
                        res.traces += 1
                        msgs_all += [(dict(part=part, endian=endian, bit64=bit64, sizes=sizes, order=[b["name"] + b["kind"][0] for b in blocks],
                                           header=header is not None, eof=eof), m) for m in msgs]
        # names that are prefixes of one another (K / KAA / KAAX, M1 / M10): every order of the five blocks
        for endian, bit64 in itertools.product(("<", ">"), (False, True)):
            blks = [op2_enc.matrix_block(nm, M1 * (i + 1), 2, tid=101 + i) for i, nm in enumerate(("K", "KAA", "KAAX", "M1", "M10"))]
            for order in itertools.permutations(range(5)):
                if order[0] > order[1] and order[2] > order[3]:
                    continue  # half of the orders are enough to put every name before and after every other
                blocks = [blks[i] for i in order]
                data, truth = op2_enc.encode(blocks, endian, bit64)
                tag = "op2 %s %dbit prefix-names order=%s" % (endian, 64 if bit64 else 32, [b["name"] for b in blocks])
                msgs = check_op2_file(data, truth, blocks, res, tag)
                res.ev("op2names/%s/%d" % (endian, 64 if bit64 else 32))
                res.traces += 1
                msgs_all += [(dict(part=part, endian=endian, bit64=bit64, names=[b["name"] for b in blocks]), m) for m in msgs]
        # a table and matrices sharing ONE name: matrix reads by name / occurrence must count matrices only
        for endian, bit64 in itertools.product(("<", ">"), (False, True)):
            it = endian + ("i8" if bit64 else "i4")
            tabK = op2_enc.table_block("KAA", [[np.arange(1, 6).astype(it).tobytes()], [np.arange(50, 53).astype(it).tobytes()]], trailer=(104, 5, 3, 0, 0, 0, 0))
            mA = op2_enc.matrix_block("KAA", M1, 2)
            mB = op2_enc.matrix_block("KAA", M2, 2, tid=103)
            other = op2_enc.matrix_block("MAA", M1 * 3, 2, tid=105)
            for order in itertools.permutations((tabK, mA, mB, other)):
                blocks = list(order)
                data, truth = op2_enc.encode(blocks, endian, bit64)
                tag = "op2 %s %dbit table+matrices named KAA order=%s" % (endian, 64 if bit64 else 32, [b["name"] + ":" + b["kind"][0] for b in blocks])
                msgs = check_op2_file(data, truth, blocks, res, tag)
                res.ev("op2shared/%s/%d" % (endian, 64 if bit64 else 32))
                res.traces += 1
                msgs_all += [(dict(part=part, endian=endian, bit64=bit64, shared=[b["name"] + b["kind"][0] for b in blocks]), m) for m in msgs]
    return msgs_all


# ------------------------------------------------------------------ driver
def op4_object_history(res, maxlen):
    """K2 over one OP4 reader object: EVERY sequence of up to `maxlen` (file, method) events over a pool of files
    that differ in everything the reader detects per file (text/binary, byte order, key width, precision, layout);
    every result must equal the same call on a fresh object"""
    from pyyeti.nastran import op4

    msgs = []
    M1 = mat_from_pattern(3, 2, 0b101101, False, False)
    M2 = mat_from_pattern(2, 3, 0b011110, True, False)
    mats = [dict(name="AA", A=M1, form=2, mtype=2), dict(name="BB", A=M2, form=2, mtype=4)]
    mats_s = [dict(name="AA", A=M1.astype(np.float32).astype(float), form=2, mtype=1)]
    pool = {}
    pool["le32"] = op4_enc.encode_binary(mats, endian="<", bit64=False, layout="dense")[0]
    pool["be32big"] = op4_enc.encode_binary(mats, endian=">", bit64=False, layout="bigmat")[0]
    pool["le64"] = op4_enc.encode_binary(mats, endian="<", bit64=True, layout="nonbigmat")[0]
    pool["be64"] = op4_enc.encode_binary(mats, endian=">", bit64=True, layout="dense")[0]
    pool["single"] = op4_enc.encode_binary(mats_s, endian="<", bit64=False, layout="dense")[0]
    pool["ascE16"] = op4_enc.encode_ascii([dict(m) for m in mats], 16, 9, 5, "E", "dense")[0]
    pool["ascD24big"] = op4_enc.encode_ascii([dict(m) for m in mats], 24, 17, 3, "D", "bigmat")[0]
    files = {}
    for k, data in pool.items():
        fn = os.path.join(scratch(), "h_%s_%d.op4" % (k, os.getpid()))
        with open(fn, "wb") as f:
            f.write(data if isinstance(data, bytes) else data.encode())
        files[k] = fn
    methods = {
        "listload": lambda o, fn: o.listload(fn),
        "dctload": lambda o, fn: o.dctload(fn),
        "dir": lambda o, fn: o.dir(fn, verbose=False),
        "sparse": lambda o, fn: o.listload(fn, sparse=True),
        "named": lambda o, fn: o.listload(fn, namelist=["aa"]),
    }

    def canon(x):
        if isinstance(x, dict):
            return tuple((k, canon(v)) for k, v in sorted(x.items()))
        if isinstance(x, (list, tuple)):
            return tuple(canon(v) for v in x)
        if hasattr(x, "toarray"):
            x = x.toarray()
        if isinstance(x, np.ndarray):
            return (x.shape, str(x.dtype), x.tobytes())
        return x

    events = [(fk, mk) for fk in files for mk in methods]
    fresh = {}
    with warnings.catch_warnings():
        warnings.simplefilter("ignore")
        for fk, mk in events:
            fresh[(fk, mk)] = canon(methods[mk](op4.OP4(), files[fk]))
        # all ordered pairs of files x a rotating choice of methods; all ordered triples of files with listload
        seqs = []
        fks, mks = list(files), list(methods)
        for i, a in enumerate(fks):
            for j, b in enumerate(fks):
                for m1 in mks:
                    seqs.append(((a, m1), (b, mks[(i + j + mks.index(m1)) % len(mks)])))
        if maxlen >= 3:
            for a, b, c in itertools.product(fks, repeat=3):
                seqs.append(((a, "listload"), (b, "dir"), (c, "listload")))
        for seq in seqs:
            o = op4.OP4()
            res.traces += 1
            for step, (fk, mk) in enumerate(seq):
                res.transitions += 1
                try:
                    got = canon(methods[mk](o, files[fk]))
                except Exception as e:  # noqa
                    msgs.append((dict(seq=[list(x) for x in seq]), "op4 object history %s: call %d raised %r" % (list(seq), step + 1, e)))
                    break
                if got != fresh[(fk, mk)]:
                    msgs.append((dict(seq=[list(x) for x in seq]), "op4 object history %s: call %d (%s of file %s) differs from the same call on a fresh OP4 object" % (list(seq), step + 1, mk, fk)))
                    break
            if len(msgs) > 5:
                break
    res.states += len(seqs)
    res.ev("op4/object-history", n=0)
    return msgs


def shards(tier, seed):
    cases = op4_matrices(tier)
    ncol = 6 if tier == "quick" else 8
    cases += [("col", ncol, p) for p in range(1, 2 ** ncol)]
    cases += [("cut", L) for L in (2999, 3000, 3001)]
    cases += [("rows65536", L) for L in (65533, 65534, 65535)]  # 65535 / 65536 / 65537 rows: where 65536 or more rows imply BIGMAT strings
    n = 48 if tier == "quick" else 128
    out = [dict(part="op4", cases=cases[i::n], tier=tier) for i in range(n)]
    out.append(dict(part="op2", which="matrix-strings", tier=tier))
    out.append(dict(part="op2", which="sequences", tier=tier))
    out.append(dict(part="op4hist", maxlen=2 if tier == "quick" else 3, tier=tier))
    out.sort(key=lambda s: 0 if s["part"] == "op2" else 1)
    return out


def run_shard(sh):
    res = Result()
    tier = sh["tier"]
    try:
        if sh["part"] == "op4hist":
            for extra, m in op4_object_history(res, sh["maxlen"]):
                res.viol(dict(part="op4hist", maxlen=sh["maxlen"], tier=tier, **extra), m, kind="op4hist")
            res.sample(dict(sh))
        elif sh["part"] == "op4":
            for case in sh["cases"]:
                for extra, m in run_op4_case(tuple(case), tier, res):
                    res.viol(dict(part="op4", case=list(case), tier=tier, **extra), m, kind="op4-" + extra["fmt"] + "-" + (extra["layout"] if isinstance(extra["layout"], str) else "mixed") + "-" + m.split(":")[1][:30])
            res.sample(dict(part="op4", case=list(case)))
        else:
            for extra, m in run_op2(tier, res, sh["which"]):
                res.viol(dict(tier=tier, **extra), m, kind="op2-" + m.split(":")[1][:34])
            res.sample(dict(part="op2", which=sh["which"]))
    finally:
        if _DIR and os.path.isdir(_DIR):
            shutil.rmtree(_DIR, ignore_errors=True)
    return res


def replay(case):
    res = Result()
    tier = case.get("tier", "quick")
    try:
        if case.get("part") == "op4hist":
            return [m for ex, m in op4_object_history(res, case["maxlen"]) if jsame(ex.get("seq"), case.get("seq"))]
        if case.get("part") == "op4":
            out = run_op4_case(tuple(case["case"]), tier, res)
            keys = [k for k in case if k not in ("part", "case", "tier")]
            return [m for ex, m in out if all(jsame(ex.get(k), case[k]) for k in keys)]
        out = run_op2(tier, res, case["part"])
        keys = [k for k in case if k not in ("tier",)]
        return [m for ex, m in out if all(jsame(ex.get(k), case[k]) for k in keys)]
    finally:
        if _DIR and os.path.isdir(_DIR):
            shutil.rmtree(_DIR, ignore_errors=True)
