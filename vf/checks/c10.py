"""C10 - cycle-counting pipeline (findap, getbins/binify/sigcount) and fatigue
damage PSD invariants (K1 grids; R2 brute-force reversal finder / interval
membership / ASTM rainflow; R3 numba-branch source run as plain Python)."""
import ast
import itertools
import warnings

import numpy as np

from vf import crain
from vf.core import jsame, REPO, Result

PROP = "C10"
LEVEL = "model_checking"
RULE = (
    "findap: EVERY sequence of length 1..L over 6 integer levels x tol {1e-6, .3} and over an epsilon alphabet "
    "{0,1e-6,2e-6,1,1+1e-6,2} (sub-tolerance steps) on both variants (the active one and the numba-branch definition "
    "extracted from the source and run as plain Python): first sample selected, strict max/min alternation, global "
    "extremes within tol*max|dy|, documented plateau/last-point rules, exact agreement with a brute-force reversal "
    "finder when no sub-tolerance step exists, variant equality.  binify/getbins/sigcount: cycle tables of every "
    "sequence (L<=6, 4 levels) and synthetic tables with values exactly on edges x scalar bins {1,2,3,10} and explicit "
    "bins (covering / not covering) x right x check_bounds against brute-force half-open interval membership; total "
    "count conserved when bins cover.  fdepsd: 6 deterministic signals x 2 frequency vectors x Q x resp x nbins x T0 x "
    "rolloff x hpfilter x winends: count matrix recomputed from an independent rainflow of the response, monotone "
    "cumulative counts, Amax <= srs, G2 >= G1, damage indicators, variance relation, peak-amplitude relation, "
    "scale^2.  signature = routine / regime"
)
ASSUMPTIONS = [
    "numba itself is not installed: the to-be-jitted findap definition is executed as plain Python",
    "the SDOF response inside fdepsd is recomputed with pyYeti's own filter coefficients (decided in C03) and its reversal points with findap (decided here); rainflow, binning and all formulas after that are independent",
    "sub-tolerance regime: only the invariants stated in the property are demanded (no reference selection)",
    "di_test is held to N0 * E[a^b] of the Rayleigh amplitude distribution (sigma=1), truncated at sqrt(2 ln N0) for absacce and untruncated for pvelo, as derived in the routine's references",
]
_FINDAP = {}


def bounds(tier):
    return {"quick": "findap length <= 5 (6 levels) ; tables from sequences <= 5", "thorough": "findap length <= 7 (6 levels); tables from sequences <= 6"}.get(tier, "")


def setup(tier, seed):
    crain.load("fast", install=True)
    variants()


def teardown():
    crain.cleanup()


def variants():
    """{'active': cyclecount.findap, 'numba-branch' / 'plain-branch': the other definition as plain Python}"""
    if _FINDAP:
        return _FINDAP
    from pyyeti import cyclecount, locate

    _FINDAP["active"] = cyclecount.findap
    src = open(REPO + "/pyyeti/cyclecount.py").read()
    tree = ast.parse(src)
    ns = {"np": np, "locate": locate, "numba_bool": bool}
    for node in tree.body:
        if isinstance(node, ast.If) and isinstance(node.test, ast.UnaryOp) and getattr(node.test.operand, "id", "") == "HAVE_NUMBA":
            other = node.orelse if not cyclecount.HAVE_NUMBA else node.body
            for fn in other:
                if isinstance(fn, ast.FunctionDef) and fn.name == "findap":
                    fn.decorator_list = []
                    exec(compile(ast.Module(body=[fn], type_ignores=[]), "cyclecount_other_branch", "exec"), ns)
    if "findap" in ns:
        _FINDAP["other-branch"] = ns["findap"]
    return _FINDAP


# ------------------------------------------------------------------ findap
def ref_reversals(y):
    """brute force for exact data: drop repeats (keep the first of a series), keep the first point,
    every local extreme, and the last distinct point"""
    idx = [0]
    for i in range(1, len(y)):
        if y[i] != y[idx[-1]]:
            idx.append(i)
    if len(idx) == 1:
        pv = np.zeros(len(y), bool)
        pv[0] = True
        return pv
    keep = [idx[0]]
    for a, b, c in zip(idx, idx[1:], idx[2:]):
        if (y[b] - y[a]) * (y[c] - y[b]) < 0:
            keep.append(b)
    keep.append(idx[-1])
    pv = np.zeros(len(y), bool)
    pv[keep] = True
    return pv


def ref_default_rule(y, tol):
    """transcription of the documented default rule (locate.find_unique: a value is 'the same as the previous' if it
    differs from its PREDECESSOR by no more than tol*max|dy|; then slope-sign changes on the remaining values; the last
    remaining value is selected iff it differs from the one before it).  Used only to tell the known sub-tolerance
    drift family (the rule itself misbehaves) from any other deviation."""
    y = np.asarray(y, float)
    n = len(y)
    if n == 1:
        return np.array([True])
    d = np.diff(y)
    stol = abs(tol * np.abs(d).max())
    u = np.concatenate(([True], np.abs(d) > stol))
    yu = y[u]
    pv = np.ones(len(yu), bool)
    if len(yu) > 2:
        sg = np.sign(np.diff(yu))
        pv[1:-1] = np.abs(np.diff(sg)) == 2
        pv[-1] = yu[-1] != yu[-2]
    out = np.zeros(n, bool)
    out[u] = pv
    return out


def findap_msgs(y, tol, res):
    """returns list of (kind, msg)"""
    out = []
    y = np.asarray(y, float)
    n = len(y)
    stol = abs(tol * np.abs(np.diff(y)).max()) if n > 1 else 0.0
    d = np.abs(np.diff(y)) if n > 1 else np.array([])
    subtol = bool(np.any((d > 0) & (d <= stol * (1 + 1e-12))))
    sig = "findap/%s/%s" % ("subtol" if subtol else "exact", "n<=2" if n <= 2 else "plateau" if np.any(d == 0) else "strict")
    got = {}
    for name, fn in variants().items():
        try:
            yin = y.copy()
            pv = np.asarray(fn(yin, tol))
            if not np.array_equal(yin, y):
                out.append(("mutate/" + name, "findap[%s] modified its input %s -> %s" % (name, y.tolist(), yin.tolist())))
        except Exception as e:  # noqa
            out.append(("raise/" + name, "findap[%s](%s, tol=%g) raised %r" % (name, y.tolist(), tol, e)))
            continue
        res.ev(sig)
        got[name] = pv
        if pv.shape != (n,) or pv.dtype != bool:
            out.append(("shape/" + name, "findap[%s](%s) returns shape %s dtype %s" % (name, y.tolist(), pv.shape, pv.dtype)))
            continue
        if not pv[0]:
            out.append(("first/" + name, "findap[%s](%s, tol=%g): first sample not selected" % (name, y.tolist(), tol)))
        sel = y[pv]
        ds = np.diff(sel)
        if np.any(ds[:-1] * ds[1:] > 0):
            out.append(("samedir/" + name, "findap[%s](%s, tol=%g) selects %s: two consecutive moves in the same direction (a selected point is neither a maximum nor a minimum of the selection)" % (name, y.tolist(), tol, sel.tolist())))
        elif np.any(ds == 0):
            out.append(("alternate/" + name, "findap[%s](%s, tol=%g) selects %s: not strictly alternating maxima/minima (equal consecutive values)" % (name, y.tolist(), tol, sel.tolist())))
        if sel.max() < y.max() - stol * (1 + 1e-12) or sel.min() > y.min() + stol * (1 + 1e-12):
            out.append(("extreme/" + name, "findap[%s](%s, tol=%g) selects %s: global max %r / min %r not reached within tol*max|dy| = %g" % (name, y.tolist(), tol, sel.tolist(), y.max(), y.min(), stol)))
        if not subtol:
            want = ref_reversals(y)
            if not np.array_equal(pv, want):
                out.append(("reference/" + name, "findap[%s](%s, tol=%g) = %s, brute-force reversal points %s" % (name, y.tolist(), tol, np.nonzero(pv)[0].tolist(), np.nonzero(want)[0].tolist())))
    rule_ok = True
    if subtol and "active" in got and got["active"].shape == (n,):
        from pyyeti import cyclecount

        want = ref_default_rule(y, tol)
        if not cyclecount.HAVE_NUMBA and not np.array_equal(got["active"], want):
            rule_ok = False
            out.append(("rule/active", "findap[active](%s, tol=%g) = %s; the documented de-duplication + slope-sign rule gives %s" % (y.tolist(), tol, np.nonzero(got["active"])[0].tolist(), np.nonzero(want)[0].tolist())))
    findap_msgs.rule_ok = rule_ok
    if len(got) == 2:
        a, b = got["active"], got["other-branch"]
        if a.shape == b.shape and not np.array_equal(a, b):
            out.append(("variants", "findap variants disagree on %s tol=%g: active %s, other branch %s" % (y.tolist(), tol, np.nonzero(a)[0].tolist(), np.nonzero(b)[0].tolist())))
    return out, subtol


def check_findap(alpha, first, L, tol, res):
    msgs = []
    levels = ALPHA[alpha]
    for rest in itertools.product(levels, repeat=L - 1):
        y = (first,) + rest
        m, subtol = findap_msgs(y, tol, res)
        for kind, text in m:
            msgs.append((dict(part="findap", y=list(y), tol=tol, subtol=subtol, rule_ok=getattr(findap_msgs, "rule_ok", True)), text, kind))
    return msgs


ALPHA = {"int": [0.0, 1.0, 2.0, 3.0, 4.0, 5.0], "eps": [0.0, 1e-6, 2e-6, 1.0, 1.0 + 1e-6, 2.0]}


# ------------------------------------------------------------------ binning
def brute_table(cyc, ab, mb, right):
    t = np.zeros((len(mb) - 1, len(ab) - 1))
    for amp, mean, cnt in cyc:
        ia = im = None
        for i in range(len(ab) - 1):
            if (ab[i] < amp <= ab[i + 1]) if right else (ab[i] <= amp < ab[i + 1]):
                ia = i
        for i in range(len(mb) - 1):
            if (mb[i] < mean <= mb[i + 1]) if right else (mb[i] <= mean < mb[i + 1]):
                im = i
        if ia is not None and im is not None:
            t[im, ia] += cnt
    return t


def table_msgs(cyc, res, tag):
    from pyyeti import cyclecount

    msgs = []
    cyc = np.asarray(cyc, float)
    total = cyc[:, 2].sum()
    amx, amn = cyc[:, 0].max(), cyc[:, 0].min()
    mmx, mmn = cyc[:, 1].max(), cyc[:, 1].min()
    explicit_amp = {
        "cover": np.array([amn - 0.5, (amn + amx) / 2, amx + 0.5]),
        "edges": np.unique(np.concatenate(([amn - 1.0], np.unique(cyc[:, 0]), [amx + 1.0]))),
        "tight": np.unique(np.concatenate((np.unique(cyc[:, 0]), [amx + 1.0]))) if True else None,
        "short": np.array([amn - 0.5, (amn + amx) / 2 + 0.25]),
    }
    explicit_mean = {"cover": np.array([mmn - 0.5, mmx + 0.5]), "edges": np.unique(np.concatenate(([mmn - 1.0], np.unique(cyc[:, 1]), [mmx + 1.0]))), "tight": np.unique(np.concatenate(([mmn - 1.0], np.unique(cyc[:, 1]))))}
    specs = [(a, m) for a in (1, 2, 3, 10) for m in (1, 2)]
    specs += [(("x", ka), ("x", km)) for ka in explicit_amp for km in explicit_mean]
    specs += [(3, ("x", "edges")), (("x", "edges"), 2)]
    for aspec, mspec in specs:
        for right in (True, False):
            for cb in (True, False):
                ab_in = explicit_amp[aspec[1]] if isinstance(aspec, tuple) else aspec
                mb_in = explicit_mean[mspec[1]] if isinstance(mspec, tuple) else mspec
                if np.ndim(ab_in) and len(ab_in) < 2 or np.ndim(mb_in) and len(mb_in) < 2:
                    continue
                case = dict(part="binify", tag=tag, cyc=cyc.tolist(), amp=aspec, mean=mspec, right=right, cb=cb)
                try:
                    cyc_in = cyc.copy()
                    ab_snap = np.array(ab_in, dtype=float).copy()
                    tab, ab, mb = cyclecount.binify(cyc_in, ab_in, mb_in, right=right, retbins=True, use_pandas=False, check_bounds=cb)
                    if not np.array_equal(cyc_in, cyc) or not np.array_equal(np.array(ab_in, dtype=float), ab_snap):
                        msgs.append((case, "binify modified its input table or bin specification", "binify-mutate"))
                except IndexError as e:
                    # documented: with check_bounds=False the caller guarantees coverage
                    covered = _covers(cyc, ab_in, mb_in, right)
                    if not cb and not covered:
                        res.exit("binify(check_bounds=False) with bins that do not cover the data")
                        continue
                    msgs.append((case, "binify raised %r" % (e,), "binify-raise"))
                    continue
                scalar = not isinstance(aspec, tuple) and not isinstance(mspec, tuple)
                res.ev("binify/%s/%s/cb%d" % ("scalar" if scalar else "explicit", "right" if right else "left", cb))
                # scalar bins: documented construction
                for spec, bb, mx, mn in ((aspec, ab, amx, amn), (mspec, mb, mmx, mmn)):
                    if not isinstance(spec, tuple):
                        lo, hi = (mn - 0.5, mx + 0.5) if mx == mn else (mn, mx)
                        want = np.linspace(lo, hi, spec + 1)
                        p = 0.001 * (hi - lo)
                        if right:
                            want[0] -= p
                        else:
                            want[-1] += p
                        if bb.shape != want.shape or not np.allclose(bb, want, rtol=1e-14, atol=1e-14):
                            msgs.append((case, "getbins(%r) = %s, documented construction gives %s" % (spec, bb.tolist(), want.tolist()), "getbins"))
                covered = _covers(cyc, ab, mb, right)
                if not cb and not covered:
                    # wrap-around indexing is the documented risk of check_bounds=False
                    res.exit("binify(check_bounds=False) with bins that do not cover the data")
                    continue
                want = brute_table(cyc, ab, mb, right)
                if tab.shape != want.shape or not np.array_equal(tab, want):
                    msgs.append((case, "binify table %s differs from brute-force interval membership %s (amp edges %s, mean edges %s, right=%s)" % (tab.tolist(), want.tolist(), ab.tolist(), mb.tolist(), right), "binify-table"))
                    continue
                if covered and abs(tab.sum() - total) > 1e-12 * total:
                    msgs.append((case, "bins cover the data but the total count %r != %r" % (tab.sum(), total), "binify-total"))
                if scalar and not covered:
                    msgs.append((case, "automatically generated bins do not cover the data", "getbins-cover"))
                # check_bounds flag of getbins
                for bb, mx, mn, nm in ((ab, amx, amn, "amp"), (mb, mmx, mmn, "mean")):
                    b2, oob = cyclecount.getbins(bb if len(bb) > 2 or True else bb, mx, mn, right=right, check_bounds=True)
                    if mx == mn:  # documented reset
                        mx, mn = mx + 0.5, mn - 0.5
                    inside = (bb[0] < mn and mx <= bb[-1]) if right else (bb[0] <= mn and mx < bb[-1])
                    if bool(oob) != (not inside):
                        msgs.append((case, "getbins(check_bounds=True) out_of_bounds=%r for %s edges %s, data range [%r, %r], right=%s" % (oob, nm, bb.tolist(), mn, mx, right), "getbins-oob"))
                # pandas form carries the same numbers
                df = cyclecount.binify(cyc, ab_in, mb_in, right=right, check_bounds=cb)
                if df.shape != tab.shape or not np.array_equal(df.values, tab) or df.columns.name != "Amp" or df.index.name != "Mean":
                    msgs.append((case, "pandas form of binify differs from the ndarray form", "binify-pandas"))
    return msgs


def _covers(cyc, ab, mb, right):
    if np.ndim(ab) == 0 or np.ndim(mb) == 0:
        return True
    if right:
        return bool(np.all((cyc[:, 0] > ab[0]) & (cyc[:, 0] <= ab[-1]) & (cyc[:, 1] > mb[0]) & (cyc[:, 1] <= mb[-1])))
    return bool(np.all((cyc[:, 0] >= ab[0]) & (cyc[:, 0] < ab[-1]) & (cyc[:, 1] >= mb[0]) & (cyc[:, 1] < mb[-1])))


def check_tables(first, L, res):
    from pyyeti import cyclecount
    from vf.ref.rain_ref import astm_rainflow

    msgs = []
    seen = set()
    for rest in itertools.product((0.0, 1.0, 2.0, 3.0), repeat=L - 1):
        y = np.array((first,) + rest)
        pk = y[ref_reversals(y)]
        if len(pk) < 2:
            continue
        rows = astm_rainflow(pk)
        cyc = np.array([[r[0], r[1], r[2]] for r in rows])
        key = cyc.tobytes()
        # sigcount == findap + rainflow + binify on every signal (cheap), the table sweep once per distinct table
        for ab, mb, right in ((2, 2, True), (3, 1, False)):
            t1 = cyclecount.sigcount(y, ab, mb, right=right, use_pandas=False)
            edges_a = cyclecount.getbins(ab, cyc[:, 0].max(), cyc[:, 0].min(), right=right)
            edges_m = cyclecount.getbins(mb, cyc[:, 1].max(), cyc[:, 1].min(), right=right)
            want = brute_table(cyc, edges_a, edges_m, right)
            res.ev("sigcount/%s" % ("right" if right else "left"))
            if not np.array_equal(t1, want):
                msgs.append((dict(part="sigcount", y=y.tolist(), ab=ab, mb=mb, right=right), "sigcount(%s, %d, %d, right=%s) = %s, ASTM cycles binned by brute force give %s" % (y.tolist(), ab, mb, right, t1.tolist(), want.tolist()), "sigcount"))
        if key in seen:
            continue
        seen.add(key)
        msgs += table_msgs(cyc, res, "seq")
    return msgs


def synthetic_tables():
    out = []
    # values exactly on edges of scalar bins: amplitudes 0..4 step 1 with 2/4 bins -> interior edges are data values
    out.append([[a, m, c] for a, m, c in zip([0.0, 1.0, 2.0, 3.0, 4.0], [0.0, 1.0, 2.0, 1.0, 0.0], [1.0, 0.5, 1.0, 0.5, 2.0])])
    out.append([[2.0, 1.0, 1.0]])  # single cycle: mx == mn
    out.append([[1.5, -1.0, 0.5], [1.5, -1.0, 1.0], [1.5, -1.0, 0.5]])  # all equal
    out.append([[0.1 * k, -0.3 * k, 0.5 + (k % 2) * 0.5] for k in range(1, 12)])
    out.append([[10.0 ** (k - 3), (-1.0) ** k * k, 1.0] for k in range(7)])
    return out


# ------------------------------------------------------------------ fdepsd
def fde_signals():
    n = 1500
    t = np.arange(n) / 1000.0
    k = np.arange(n)
    return {
        "burst": np.sin(2 * np.pi * 35 * t) * np.exp(-3 * t) + 0.3 * np.sin(2 * np.pi * 90 * t + 1),
        "two_tone": np.sin(2 * np.pi * 22 * t) + 0.5 * np.sin(2 * np.pi * 61 * t + 0.4),
        "chirp": np.sin(2 * np.pi * (10 + 60 * t) * t),
        "pseudo": (((k * 7919) % 1013) / 506.5 - 1.0) * (1 + 0.5 * np.sin(2 * np.pi * 3 * t)),
        "steps": np.sign(np.sin(2 * np.pi * 17 * t)) + 0.01 * k / n,
        "short": np.sin(2 * np.pi * 40 * t[:120]) + 0.2 * np.cos(2 * np.pi * 111 * t[:120]),
    }


def fde_configs(tier):
    out = []
    freqs = {"f3": [20.0, 35.0, 60.0], "f2hi": [45.0, 120.0]}
    for signame in fde_signals():
        for fk in freqs:
            for Q in (10, 25):
                for resp in ("absacce", "pvelo"):
                    for nbins in (3, 30, 300):
                        for T0 in (10.0, 60.0):
                            for rolloff in ("lanczos", "fft", "none", "prefilter"):
                                for hp in (None, 5.0):
                                    for we in (None, "auto"):
                                        if tier == "quick" and (hash_small(signame, fk, Q, resp, nbins, T0, rolloff, hp, we) % 6):
                                            continue
                                        out.append(dict(part="fdepsd", sig=signame, fk=fk, Q=Q, resp=resp, nbins=nbins, T0=T0, rolloff=rolloff, hp=hp, we=we))
    return out, freqs


def hash_small(*a):
    """deterministic covering design for the quick tier: every pair of option values still occurs"""
    s = 0
    for i, x in enumerate(a):
        s += (i + 1) * (sum(ord(c) for c in str(x)) % 7)
    return s


def fde_msgs(cfg, res):
    from pyyeti import cyclecount, fdepsd, srs
    from vf.ref.rain_ref import astm_rainflow
    import scipy.signal as signal

    freqs = {"f3": [20.0, 35.0, 60.0], "f2hi": [45.0, 120.0]}
    sig = fde_signals()[cfg["sig"]]
    freq = np.array(freqs[cfg["fk"]])
    sr = 1000.0
    kw = dict(resp=cfg["resp"], nbins=cfg["nbins"], T0=cfg["T0"], rolloff=cfg["rolloff"], hpfilter=cfg["hp"], winends=cfg["we"], parallel="no")
    Q = cfg["Q"]
    msgs = []
    sig_in, freq_in = sig.copy(), freq.copy()
    f = fdepsd.fdepsd(sig_in, sr, freq_in, Q, **kw)
    if not (np.array_equal(sig_in, sig) and np.array_equal(freq_in, freq)):
        msgs.append("fdepsd modified its input signal / frequency vector")
    res.ev("fdepsd/%s/%s/nb%d" % (cfg["resp"], cfg["rolloff"], cfg["nbins"]))
    nb = cfg["nbins"]
    T0 = cfg["T0"]
    count = f.count.values
    binc = f.bincount.values
    amps = f.binamps.values
    Amax = f.peakamp["G1"].values
    # independent recount from the response of the processed signal
    coeffunc = srs._process_inputs(cfg["resp"], "abs", "none", "primary")[0]
    for j, fr in enumerate(freq):
        b, a = coeffunc(Q, 1 / f.sr, 2 * np.pi * fr)
        resp = signal.lfilter(b, a, f.sig)
        # reversal selection is pyYeti's own (its tolerance semantics are decided in the findap part)
        pk = resp[cyclecount.findap(resp)]
        rows = astm_rainflow(pk)
        amp = np.array([r[0] for r in rows])
        cnt = np.array([r[2] for r in rows])
        if abs(f.srs.values[j] - np.abs(resp).max()) > 1e-12 * np.abs(resp).max():
            msgs.append("srs[%g Hz] = %r, max |response| = %r" % (fr, f.srs.values[j], np.abs(resp).max()))
        if abs(f.var.values[j] - np.var(resp, ddof=1)) > 1e-10 * np.var(resp, ddof=1):
            msgs.append("var[%g Hz] = %r, sample variance of the response = %r" % (fr, f.var.values[j], np.var(resp, ddof=1)))
        if Amax[j] != amp.max():
            msgs.append("peakamp G1[%g Hz] = %r, largest rainflow amplitude of the response = %r" % (fr, Amax[j], amp.max()))
            continue
        wa = np.arange(nb, dtype=float) / nb * amp.max()
        if not np.allclose(amps[j], wa, rtol=1e-14, atol=0):
            msgs.append("binamps[%g Hz] is not linspace 0..Amax*(nbins-1)/nbins" % fr)
        wc = np.array([cnt[amp >= amps[j, jj]].sum() for jj in range(nb)])
        if not np.array_equal(count[j], wc):
            bad = int(np.nonzero(count[j] != wc)[0][0])
            msgs.append("count[%g Hz, bin %d] = %r, independent rainflow count of cycles with amplitude >= %r is %r" % (fr, bad, count[j, bad], amps[j, bad], wc[bad]))
        if abs(count[j, 0] - cnt.sum()) > 0:
            msgs.append("count[%g Hz, 0] = %r is not the total cycle count %r" % (fr, count[j, 0], cnt.sum()))
        wb = np.array([cnt[(amp >= amps[j, jj]) & ((amp < amps[j, jj + 1]) if jj + 1 < nb else True)].sum() for jj in range(nb)])
        if not np.allclose(binc[j], wb, rtol=0, atol=1e-9):
            bad = int(np.nonzero(np.abs(binc[j] - wb) > 1e-9)[0][0])
            msgs.append("bincount[%g Hz, bin %d] = %r, cycles with amplitude in the bin (left-inclusive; last bin includes the maximum): %r" % (fr, bad, binc[j, bad], wb[bad]))
    if np.any(np.diff(count, axis=1) > 0):
        msgs.append("cumulative count increases with amplitude")
    if np.any(Amax > f.srs.values * (1 + 1e-12)):
        msgs.append("largest cycle amplitude %s exceeds the SRS peak %s" % (Amax.tolist(), f.srs.values.tolist()))
    psd = f.psd
    if np.any(psd["G2"].values < psd["G1"].values * (1 - 1e-12)):
        msgs.append("G2 < G1: %s vs %s" % (psd["G2"].values.tolist(), psd["G1"].values.tolist()))
    for bexp, col in ((4, "b=4"), (8, "b=8"), (12, "b=12")):
        di = (amps**bexp * binc).sum(axis=1)
        if not np.allclose(f.di_sig[col].values, di, rtol=1e-12):
            msgs.append("di_sig[%s] = %s, sum(binamps^b * bincount) = %s" % (col, f.di_sig[col].values.tolist(), di.tolist()))
        lhs = f.var_test[col].values ** (bexp / 2) * f.di_test[col].values
        if not np.allclose(lhs, f.di_sig[col].values, rtol=1e-9):
            msgs.append("var_test^(b/2) * di_test = %s does not reproduce di_sig = %s for %s (resp=%s): ratio %s" % (lhs.tolist(), f.di_sig[col].values.tolist(), col, cfg["resp"], (lhs / f.di_sig[col].values).tolist()))
    # theoretical test damage per unit variance: N0 * E[a^b] for Rayleigh-distributed cycle amplitudes (sigma = 1),
    # truncated at the peak factor sqrt(2 ln N0) for absacce, untruncated for pvelo (as in the references)
    import mpmath as mp

    mp.mp.dps = 30
    for bexp, col in ((4, "b=4"), (8, "b=8"), (12, "b=12")):
        for j, fr in enumerate(freq):
            N0 = mp.mpf(float(fr)) * T0
            top = mp.sqrt(2 * mp.log(N0)) if cfg["resp"] == "absacce" else mp.inf
            want = N0 * mp.quad(lambda a: a ** (bexp + 1) * mp.exp(-a * a / 2), [0, 3, 6, top] if top > 6 else [0, top])
            got = f.di_test[col].values[j]
            if abs(got - float(want)) > 1e-9 * abs(float(want)):
                msgs.append("di_test[%s, %g Hz] = %r, N0 * Rayleigh moment integral = %r" % (col, fr, got, float(want)))
    # peak-amplitude relation (Miles or the pvelo analogue with peak factor sqrt(2 ln(f T0)))
    lnN0 = np.log(freq * T0)
    for col in psd.columns:
        if cfg["resp"] == "absacce":
            want = np.sqrt(np.pi / 2 * freq * Q * psd[col].values) * np.sqrt(2 * lnN0)
        else:
            want = np.sqrt(Q * psd[col].values / (8 * np.pi * freq)) * np.sqrt(2 * lnN0)
        if not np.allclose(f.peakamp[col].values, want, rtol=1e-10):
            msgs.append("peakamp[%s] = %s, sqrt(2 ln(f T0)) * sigma(psd) = %s" % (col, f.peakamp[col].values.tolist(), want.tolist()))
    # test variance <-> damage PSD (sigma^2 of the SDOF response to the flat PSD)
    for col, g in (("b=4", "G4"), ("b=8", "G8"), ("b=12", "G12")):
        if cfg["resp"] == "absacce":
            want = np.pi / 2 * freq * Q * psd[g].values
        else:
            want = Q * psd[g].values / (8 * np.pi * freq)
        if not np.allclose(f.var_test[col].values, want, rtol=1e-10):
            msgs.append("var_test[%s] = %s, response variance to the %s level (Miles or pvelo analogue) = %s" % (col, f.var_test[col].values.tolist(), g, want.tolist()))
    # amplitude scaling
    for sc in (2.0, 0.5, 2.0**20, 2.0**-20):  # powers of two: the scaling is exact, units from micro to mega
        f2 = fdepsd.fdepsd(sc * sig, sr, freq, Q, **kw)
        if not np.allclose(f2.psd.values, sc**2 * psd.values, rtol=1e-9, atol=0):
            msgs.append("PSD outputs do not scale with amplitude^2 (scale %g): ratio %s" % (sc, (f2.psd.values / psd.values).tolist()))
        if not np.array_equal(f2.count.values, count):
            msgs.append("cycle counts change when the signal is scaled by %g" % sc)
    return msgs


# ------------------------------------------------------------------ driver
def check_forms(res):
    """integer-typed and strided records holding the same values give the same reversals, cycle tables, bin counts and
    fatigue spectra as the float64 contiguous record; the record is never modified"""
    from pyyeti import cyclecount, fdepsd

    msgs = []
    base_records = {
        "zigzag": np.array([0, 3, -2, 5, 1, -4, 2, 0, 6, -3, 1, 2, 2, -5, 4, 0], dtype=np.int64),
        "plateaus": np.array([1, 1, 4, 4, 4, -2, -2, 3, 0, 0, 5, -1, -1, 2, 2, 0], dtype=np.int64),
        "wide": np.array([100, -120, 90, -127, 127, -3, 60, -100, 5, 110, -90, 0], dtype=np.int64),  # int8 differences overflow
    }
    base_records["unsigned"] = np.array([200, 10, 250, 0, 255, 3, 128, 90, 254, 1, 1, 77], dtype=np.int64)  # unsigned differences wrap
    t = np.arange(400) / 400.0
    base_records["sine-mix"] = np.round(40 * np.sin(2 * np.pi * 13 * t) + 25 * np.sin(2 * np.pi * 31 * t + 0.4) + 12 * np.cos(2 * np.pi * 7 * t)).astype(np.int64)
    funcs = {
        "findap": lambda y: [cyclecount.findap(y)],
        "findap(tol=.3)": lambda y: [cyclecount.findap(y, tol=0.3)],
        "rainflow": lambda y: [np.asarray(cyclecount.rainflow(y, use_pandas=False))],
        "rainflow(getoffsets)": lambda y: [np.asarray(a) for a in cyclecount.rainflow(y, getoffsets=True, use_pandas=False)],
        "sigcount": lambda y: [cyclecount.sigcount(y, 4, 3).values],
        "sigcount(right=False)": lambda y: [cyclecount.sigcount(y, 3, 4, right=False).values],
    }
    if "other-branch" in variants():
        funcs["findap(other-branch)"] = lambda y: [variants()["other-branch"](y), variants()["other-branch"](y, 0.3)]
    for resp in ("absacce", "pvelo"):
        funcs["fdepsd(%s)" % resp] = (lambda y, resp=resp: [getattr(fdepsd.fdepsd(y, 400.0, [9.0, 23.0, 41.0], 10, resp=resp, nbins=5, rolloff="none", parallel="no"), nm).values
                                                            if hasattr(getattr(fdepsd.fdepsd(y, 400.0, [9.0], 10, resp=resp, nbins=5, rolloff="none", parallel="no"), nm), "values") else None
                                                            for nm in ("psd", "srs", "var", "peakamp", "binamps", "count", "bincount", "di_sig")])
    for rname, yi in base_records.items():
        big = np.full(2 * len(yi) + 1, 999.0)
        big[1::2] = yi
        two = np.full((len(yi), 3), -7)
        two[:, 1] = yi
        forms = {"strided": big[1::2], "2d-column": two[:, 1]}
        for dt in (np.int8, np.int16, np.int32, np.int64, np.uint8, np.uint16, np.uint32, np.uint64):
            if yi.min() >= np.iinfo(dt).min and yi.max() <= np.iinfo(dt).max:
                forms[np.dtype(dt).name] = yi.astype(dt)
        if rname == "zigzag":
            # narrow floating-point records whose adjacent differences overflow in their own precision
            forms["float16-wide"] = np.array([40000.0, -40000.0, 30000.0, -30000.0, 40000.0, 0.0, 40000.0, -40000.0, 5.0, 5.0, -3.0, 9.0, 2.0, -1.0, 4.0, 0.0], dtype=np.float16)
            forms["float32-wide"] = np.array([3.0e38, -3.0e38, 2.0e38, -2.0e38, 3.0e38, 0.0, 3.0e38, -3.0e38, 5.0, 5.0, -3.0, 9.0, 2.0, -1.0, 4.0, 0.0], dtype=np.float32)
        for fname, fn in funcs.items():
            if fname.startswith("fdepsd") and rname != "sine-mix":
                continue
            try:
                base = fn(yi.astype(float))
            except Exception as e:  # noqa
                msgs.append((dict(part="forms", rec=rname, fn=fname, form="float64"), "%s raised %r on the float64 record" % (fname, e), "forms-base"))
                continue
            res.ev("forms/%s/%s" % (fname, rname))
            for form, y in forms.items():
                case = dict(part="forms", rec=rname, fn=fname, form=form)
                snap = y.copy()
                if form.endswith("-wide"):
                    if "rainflow" in fname:
                        continue  # (c_rain takes what is safely castable; decided in C05)
                    try:
                        base_w = fn(y.astype(np.float64))
                        got_w = fn(y)
                        okw = all(np.asarray(a).shape == np.asarray(b).shape and np.array_equal(np.asarray(a, float), np.asarray(b, float), equal_nan=True) for a, b in zip(got_w, base_w))
                        if not okw:
                            msgs.append((case, "%s: a %s record with large swings gives a different result than the same values as float64" % (fname, form), "forms-diff"))
                    except Exception as e:  # noqa
                        msgs.append((case, "%s raised %r for a %s record with large swings" % (fname, e, form), "forms-raise"))
                    continue
                try:
                    got = fn(y)
                except Exception as e:  # noqa
                    msgs.append((case, "%s raised %r for a record given as %s" % (fname, e, form), "forms-raise"))
                    continue
                ok = all((a is None and b is None) or (np.asarray(a).shape == np.asarray(b).shape and np.array_equal(np.asarray(a, float), np.asarray(b, float), equal_nan=True))
                         for a, b in zip(got, base))
                if not ok:
                    msgs.append((case, "%s: a record given as %s gives a different result than the same values as contiguous float64" % (fname, form), "forms-diff"))
                if not (y.dtype == snap.dtype and np.array_equal(y, snap)):
                    msgs.append((case, "%s modified the caller's record (%s)" % (fname, form), "forms-mutated"))
    return msgs


def check_fde_history(res, maxlen):
    """K2 over ONE array object handed to fdepsd repeatedly while the caller changes its contents in place between
    calls (x *= 4, x[:] = x[::-1], x += ramp): after EVERY sequence of up to `maxlen` in-place changes and EVERY
    interleaved option change the result equals the result for a fresh array object holding the same values (no
    state keyed on object identity may survive a change of the data)"""
    from pyyeti import fdepsd

    msgs = []
    sig0 = fde_signals()["short"].copy()
    ramp = np.linspace(-0.5, 0.5, len(sig0))
    muts = {"x*=4": lambda x: x.__imul__(4.0), "reverse": lambda x: x.__setitem__(slice(None), x[::-1].copy()), "x+=ramp": lambda x: x.__iadd__(ramp)}
    optsets = [dict(resp="absacce", rolloff="lanczos", hpfilter=None, winends="auto"), dict(resp="pvelo", rolloff="none", hpfilter=5.0, winends=None)]
    freq = [40.0, 111.0]

    def call(x, o):
        r = fdepsd.fdepsd(x, 1000.0, freq, 10, nbins=4, T0=30.0, parallel="no", **o)
        return [np.asarray(getattr(r, nm).values if hasattr(getattr(r, nm), "values") else getattr(r, nm), float) for nm in ("psd", "srs", "var", "peakamp", "binamps", "count", "di_sig")]

    for n in range(1, maxlen + 1):
        for seq in itertools.product(list(muts), repeat=n):
            for oseq in itertools.product(range(len(optsets)), repeat=n + 1):
                if n > 1 and len(set(oseq)) > 1 and oseq[0] != oseq[-1]:
                    continue  # option changes: keep the histories that come back to the first option set
                x = sig0.copy()
                call(x, optsets[oseq[0]])
                res.traces += 1
                res.states += 1
                for step, mname in enumerate(seq):
                    muts[mname](x)
                    o = optsets[oseq[step + 1]]
                    res.states += 1
                    got = call(x, o)
                    want = call(x.copy(), o)
                    res.transitions += 1
                    if not all(a.shape == b.shape and np.array_equal(a, b, equal_nan=True) for a, b in zip(got, want)):
                        case = dict(part="fde_history", seq=list(seq), opts=list(oseq), step=step)
                        msgs.append((case, "fdepsd on an array changed in place (history %s, option sets %s): call %d returns a different result than the same call on a "
                                     "fresh array holding the same values" % (list(seq), list(oseq), step + 2), "fde-history"))
                        break
                if len(msgs) > 4:
                    return msgs
    res.ev("fde_history", n=0)
    return msgs


def shards(tier, seed):
    out = [dict(part="forms"), dict(part="fde_history", maxlen=2 if tier == "quick" else 3)]
    Lmax = 5 if tier == "quick" else 7
    for alpha in ("int", "eps"):
        for tol in (1e-6, 0.3):
            if alpha == "eps" and tol == 0.3:
                continue
            for L in range(1, Lmax + 1):
                for first in ALPHA[alpha]:
                    out.append(dict(part="findap", alpha=alpha, first=first, L=L, tol=tol))
    Lt = 5 if tier == "quick" else 6
    for L in range(2, Lt + 1):
        for first in (0.0, 1.0, 2.0, 3.0):
            out.append(dict(part="tables", first=first, L=L))
    out.append(dict(part="synthetic"))
    cfgs, _ = fde_configs(tier)
    for i in range(0, len(cfgs), 8):
        out.append(dict(part="fdepsd_block", cfgs=cfgs[i : i + 8]))
    r = seed % len(out)
    return out[r:] + out[:r]


def _run(sh, res):
    part = sh["part"]
    if part == "findap":
        if "y" in sh:
            m, subtol = findap_msgs(sh["y"], sh["tol"], res)
            return [(dict(sh, rule_ok=getattr(findap_msgs, "rule_ok", True)), t, k) for k, t in m]
        return check_findap(sh["alpha"], sh["first"], sh["L"], sh["tol"], res)
    if part == "tables":
        return check_tables(sh["first"], sh["L"], res)
    if part == "sigcount":
        m = check_tables(sh["y"][0], len(sh["y"]), res)
        return [x for x in m if x[0].get("part") == "sigcount" and x[0]["y"] == sh["y"]]
    if part == "binify":
        m = table_msgs(np.array(sh["cyc"]), res, sh.get("tag", ""))
        return [x for x in m if all(jsame(x[0].get(k), sh.get(k)) for k in ("amp", "mean", "right", "cb"))]
    if part == "fde_history":
        m = check_fde_history(res, sh.get("maxlen", 2))
        if "seq" in sh:
            m = [x for x in m if jsame(x[0].get("seq"), sh["seq"]) and jsame(x[0].get("opts"), sh["opts"])]
        return m
    if part == "forms":
        m = check_forms(res)
        if "fn" in sh:
            m = [x for x in m if all(x[0].get(k) == sh.get(k) for k in ("rec", "fn", "form"))]
        return m
    if part == "synthetic":
        msgs = []
        for i, cyc in enumerate(synthetic_tables()):
            msgs += table_msgs(np.array(cyc), res, "syn%d" % i)
        return msgs
    if part == "fdepsd_block":
        msgs = []
        for cfg in sh["cfgs"]:
            for t in fde_msgs(cfg, res):
                msgs.append((cfg, t, "fdepsd/" + t.split("[")[0].split("=")[0][:30] + "/" + cfg["resp"]))
        return msgs
    if part == "fdepsd":
        return [(sh, t, "fdepsd") for t in fde_msgs(sh, res)]
    raise ValueError(part)


def run_shard(sh):
    res = Result()
    variants()
    with warnings.catch_warnings():
        warnings.simplefilter("ignore")
        msgs = _run(sh, res)
    for case, m, kind in msgs:
        res.viol(case, m, kind=kind)
    res.sample({k: v for k, v in sh.items() if k != "cfgs"})
    return res


def replay(case):
    res = Result()
    with warnings.catch_warnings():
        warnings.simplefilter("ignore")
        return [m for _, m, _ in _run(case, res)]


def required_sigs(tier):
    return ["findap/exact/plateau", "findap/subtol/strict", "findap/exact/n<=2", "binify/explicit/left/cb0", "binify/scalar/right/cb1", "sigcount/right", "fdepsd/pvelo/fft/nb300", "fdepsd/absacce/prefilter/nb3"]


def _m_drift(case, msg):
    """sub-tolerance drift family: the input has a non-zero step <= tol*max|dy|, and the failure is extreme capture,
    variant disagreement or a degenerate (non-alternating) selection - all consequences of comparing each sample with
    its predecessor instead of the last kept one.  Inputs without sub-tolerance steps are never matched."""
    if not (case.get("part") == "findap" and case.get("subtol")):
        return False
    if "documented de-duplication" in msg:
        return False  # the code no longer follows its documented rule: that is a different violation
    if "findap[active]" in msg and not case.get("rule_ok", True):
        return False
    return "not reached within tol" in msg or "variants disagree" in msg or "not strictly alternating" in msg or "two consecutive moves" in msg


FINDING_MATCHERS = {"C10-findap-subtolerance-drift": _m_drift}
