"""one-off calibration (run on the pinned tree only, result committed):
/venv/bin/python -m vf.checks.c01_calibrate  -> writes c01_tol.json"""
import json
import os
import warnings

from vf import core
from vf.checks import c01


def main():
    warnings.simplefilter("ignore")
    c01.CALIB = True
    c01.TOLTAB.clear()
    sh = [s for s in c01.shards("thorough", 0) if s["part"] == "modal"]
    res = core.run_shards(c01, sh)
    tab = {k[2:]: v[0] for k, v in res.maxerr.items() if k.startswith("e/SolveUnc/")}
    out = {"note": "worst relative error of SolveUnc's uncoupled path against the 40-digit reference, per (regime@w*h) "
                   "cell, over the complete thorough alphabet on the pinned tree (after the fix: commits); frozen",
           "worst_observed": {k: v for k, v in sorted(tab.items())}}
    with open(os.path.join(os.path.dirname(os.path.abspath(__file__)), "c01_tol.json"), "w") as f:
        json.dump(out, f, indent=1)
    big = {k: v for k, v in tab.items() if v > 1e-8}
    print("cells:", len(tab), "cells with worst error > 1e-8:")
    for k, v in sorted(big.items(), key=lambda x: -x[1]):
        print("  %-28s %.3g" % (k, v))
    for k, v in sorted(res.maxerr.items()):
        if k.startswith("e/SolveExp"):
            if v[0] > 1e-11:
                print("  %s %.3g" % (k, v[0]))


if __name__ == "__main__":
    main()
