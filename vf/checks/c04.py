"""C04 - OUTPUT4 write -> read is the identity.  K1 grid over every sparsity
pattern of small shapes x value classes x real/complex x every write
configuration x every read mode / API, plus boundary sizes and multi-matrix
files (R4)."""
import itertools
import os
import shutil
import tempfile
import warnings

import numpy as np
import scipy.sparse as sp

from vf.core import Result

PROP = "C04"
LEVEL = "model_checking"
RULE = (
    "matrices: EVERY sparsity pattern of every shape r x c (r,c<=3), every pattern of a 10x1 column (all string "
    "partitions) and of 1xc rows, values assigned by position from magnitude classes {O(1), mixed signs, 2-digit "
    "exponents, 3-digit exponents of both signs, denormal, DBL_MAX}, real and complex; boundary sizes (65535/65536 rows, "
    "16383/16384-row dense string, 2999/3000/3001 values, empty/all-zero/0-column); x binary{T,F} x endian{<,>,=} x "
    "sparse{auto,dense,bigmat,nonbigmat} x digits{1,5,9,16,17} x input{ndarray,coo,csr,csc, coo/csr with duplicate entries} x read mode{dense,sparse,"
    "auto,(True,tocsr)} x API{load dct/list, read, class methods, dir} x names x forms{None,1,2,6}; files of 1-3 "
    "matrices in every order incl. repeated names.  Oracle: same name/shape/form/type; values bit-exact (binary) or "
    "relative error <= 0.5*10^-digits (ASCII); dense == sparse reads; dir agrees.  signature = shape/nnz-structure/"
    "value class/config"
)
ASSUMPTIONS = [
    "files are written to a private scratch directory on /dev/shm (removed at exit)",
    "ASCII accuracy bound: %E with `digits` decimals has relative error <= 0.5*10^-digits (x1.0001 slack)",
]
_DIR = None
DBL_MAX = np.finfo(float).max


def bounds(tier):
    return {"quick": "shapes <=2x3 all patterns + 3x3 every 5th pattern; 10x1 every pattern; 4 value classes",
            "thorough": "shapes <=3x3 all patterns; 10x1 and 1x6 every pattern; 6 value classes"}.get(tier, "")


def scratch():
    global _DIR
    if _DIR is None or not os.path.isdir(_DIR):
        base = "/dev/shm" if os.path.isdir("/dev/shm") else None
        _DIR = tempfile.mkdtemp(prefix="vf_c04_%d_" % os.getpid(), dir=base)
    return _DIR


def teardown():
    pass


VALUE_CLASSES = {
    "o1": [1.5, 2.25, 3.125, 0.75, 4.5, 1.0625, 7.0, 0.5, 9.75],
    "signs": [-1.5, 2.25, -3.125, 0.1, -4.7, 1e-3, -7.0, 0.3, -9.75],
    "exp2": [1.5e10, -2.25e-10, 3.1e25, -4e-31, 5.5e77, 6e-88, -7e99, 8e-99, 9.9e50],
    "exp3": [1.5e100, -2.25e-100, 3.1e250, -4e-250, -5.5e300, 6e-300, -7e199, 8e-199, -1e-100],
    "denormal": [5e-324, -1e-310, 2.2250738585072014e-308, -3e-320, 1e-315, -4.9e-324, 7e-309, 1e-312, -2e-323],
    # complex values whose real and imaginary parts live on different magnitude scales (paired with the next value)
    "mixcplx": [1.5, -2.5e-120, 2.25, -3e-200, -4.0, 5e150, -6.5e-101, 7.0, -8e-99],
    "dblmax": [DBL_MAX, -DBL_MAX, 1.0, -DBL_MAX / 2, DBL_MAX / 3, -1.0, 0.1, DBL_MAX, -0.1],
}


def make_matrix(r, c, pattern, vclass, cplx):
    vals = VALUE_CLASSES[vclass]
    M = np.zeros((r, c), complex if cplx else float)
    k = 0
    for j in range(c):
        for i in range(r):
            if pattern >> (j * r + i) & 1:
                v = vals[k % len(vals)]
                if cplx and vclass == "mixcplx":
                    v = complex(v, vals[(k + 1) % len(vals)])
                elif cplx:
                    w = vals[(k + 3) % len(vals)]
                    if vclass == "dblmax":
                        w = w / 2
                    v = complex(v, w if (k % 3) else 0.0)
                M[i, j] = v
                k += 1
    return M


def expected_form(M, form):
    """set of acceptable forms: given form, else 6 for (exactly) symmetric square, 1 for clearly unsymmetric square,
    either when symmetric only within numpy.allclose's tolerance, 2 for rectangular"""
    if form is not None:
        return {form}
    if M.shape[0] == M.shape[1]:
        if np.abs(M).max(initial=0) > 1e300:
            return {6, 1}  # symmetry test by numpy.allclose overflows near DBL_MAX: inference not decided
        if np.array_equal(M.T, M):
            return {6}
        with np.errstate(all="ignore"):
            return {6, 1} if np.allclose(M.T, M) else {1}
    return {2}


def same_bits(a, b):
    a = np.ascontiguousarray(a)
    b = np.ascontiguousarray(b)
    return a.shape == b.shape and a.dtype == b.dtype and a.tobytes() == b.tobytes()


def close_digits(got, want, digits):
    """relative error per element (real and imaginary parts separately) <= 0.5*10^-digits"""
    if got.shape != want.shape:
        return False, "shape %s != %s" % (got.shape, want.shape)
    g = np.asarray(got, dtype=complex)
    w = np.asarray(want, dtype=complex)
    for part in ("real", "imag"):
        gp, wp = getattr(g, part), getattr(w, part)
        with np.errstate(all="ignore"):
            tol = 0.5 * 10.0 ** (-digits) * 1.0001 * np.abs(wp)
            # subnormal values cannot carry `digits` digits: absolute floor of one subnormal quantum
            tol = np.maximum(tol, 5e-324)
            bad = ~(np.abs(gp - wp) <= tol)
            bad &= ~((wp == 0) & (gp == 0))
            # a value within half a unit of the last written digit of DBL_MAX legitimately rounds to +-inf
            over = (np.abs(wp) * (1 + 0.5 * 10.0 ** (-digits)) >= DBL_MAX * (1 - 1e-15)) & np.isinf(gp) & (np.sign(gp) == np.sign(wp))
            bad &= ~over
            # |want| rounding up past DBL_MAX prints as inf in %E only if it overflows; compare finite only
        if bad.any():
            i = np.argwhere(bad)[0]
            return False, "%s part of element %s: wrote %r, read %r" % (part, tuple(i), wp[tuple(i)], gp[tuple(i)])
    return True, ""


def as_input(M, kind):
    if kind == "ndarray":
        return M
    if kind in ("coo_dup", "csr_dup"):
        # assembly-style sparse input: every non-zero stored as two entries v/2 + v/2 at the same (row, col)
        # (exact for normal numbers); scipy defines the matrix value as the sum of duplicates
        i, j = np.nonzero(M)
        o = np.lexsort((i, j)) if kind == "coo_dup" else np.lexsort((j, i))
        i, j = i[o], j[o]
        v = M[i, j] / 2
        ii = np.concatenate((i, i[::-1]))
        jj = np.concatenate((j, j[::-1]))
        vv = np.concatenate((v, v[::-1]))
        A = sp.coo_matrix((vv, (ii, jj)), shape=M.shape)
        if kind == "coo_dup":
            return A
        o = np.argsort(ii, kind="stable")
        indptr = np.concatenate(([0], np.cumsum(np.bincount(ii, minlength=M.shape[0]))))
        return sp.csr_matrix((vv[o], jj[o], indptr), shape=M.shape)
    return {"coo": sp.coo_matrix, "csr": sp.csr_matrix, "csc": sp.csc_matrix}[kind](M)


def todense(X):
    if sp.issparse(X):
        return np.asarray(X.toarray())
    return np.asarray(X)


def roundtrip(M, cfg, fname, res, name="Mat1", form=None, secondary=True):
    """one write, all read modes/APIs.  returns list of messages"""
    from pyyeti.nastran import op4

    msgs = []
    binary, endian, sparse, digits, inkind = cfg
    cplx = np.iscomplexobj(M)
    try:
        with warnings.catch_warnings():
            warnings.simplefilter("ignore")
            op4.write(fname, name, as_input(M, inkind), binary=binary, digits=digits, endian=endian, sparse=sparse, forms=form)
    except Exception as e:  # noqa
        return ["write raised %r" % (e,)]
    wname = name.lower()[:8] if name.isidentifier() else "m0"  # names are stored upper-case and returned lower-case
    wform = expected_form(M, form)
    wtype = 4 if cplx else 2
    o4 = op4.OP4()
    reads = {}
    for rmode in (False, True, None, (True, sp.coo_matrix.tocsr)):
        key = "tocsr" if isinstance(rmode, tuple) else str(rmode)
        try:
            with warnings.catch_warnings():
                warnings.simplefilter("ignore")
                d = op4.load(fname, sparse=rmode)
        except Exception as e:  # noqa
            msgs.append("load(sparse=%s) raised %r" % (key, e))
            continue
        if list(d.keys()) != [wname]:
            msgs.append("load(sparse=%s): names %s, expected [%s]" % (key, list(d.keys()), wname))
            continue
        X, f2, t2 = d[wname]
        if f2 not in wform or t2 != wtype:
            msgs.append("load(sparse=%s): form/type %s/%s, expected %s/%s" % (key, f2, t2, wform, wtype))
        if rmode is False and sp.issparse(X):
            msgs.append("load(sparse=False) returned a sparse matrix")
        if rmode is True and not sp.issparse(X):
            msgs.append("load(sparse=True) returned a dense matrix")
        if isinstance(rmode, tuple) and not sp.isspmatrix_csr(X) and not (sp.issparse(X) and X.format == "csr"):
            msgs.append("load(sparse=(True, tocsr)) did not apply the callable")
        if rmode is None:
            written_sparse = sparse in ("bigmat", "nonbigmat") or (sparse == "auto" and inkind != "ndarray")
            if bool(sp.issparse(X)) != written_sparse and M.any():
                msgs.append("load(sparse=None): sparse=%s although the matrix was written %s" % (sp.issparse(X), "sparse" if written_sparse else "dense"))
        Xd = todense(X)
        reads[key] = Xd
        if Xd.shape != M.shape:
            msgs.append("load(sparse=%s): shape %s, expected %s" % (key, Xd.shape, M.shape))
            continue
        if np.iscomplexobj(Xd) != cplx and M.any():
            msgs.append("load(sparse=%s): complexness changed" % key)
        if binary:
            want = M if cplx else M.astype(float)
            if not same_bits(np.asarray(Xd, dtype=want.dtype), want):
                msgs.append("load(sparse=%s): values not bit-identical after binary round trip" % key)
        else:
            ok, why = close_digits(Xd, M, digits)
            if not ok:
                msgs.append("load(sparse=%s): ASCII value not within %d digits: %s" % (key, digits, why))
    ks = list(reads)
    for k in ks[1:]:
        if reads[k].shape == reads[ks[0]].shape and not same_bits(np.asarray(reads[k], dtype=complex), np.asarray(reads[ks[0]], dtype=complex)):
            msgs.append("dense and sparse reads differ (%s vs %s)" % (ks[0], k))
    # other APIs
    if not secondary:
        return msgs
    try:
        with warnings.catch_warnings():
            warnings.simplefilter("ignore")
            names, mats, forms, types = op4.load(fname, into="list")
            jm = op4.read(fname)
            d2 = o4.dctload(fname, justmatrix=True)
            dn, ds, df, dt = op4.dir(fname, verbose=False)
            byname = op4.load(fname, namelist=wname, justmatrix=True)
            none = op4.load(fname, namelist="nosuch")
        if names != [wname] or forms[0] not in wform or types != [wtype]:
            msgs.append("list interface: %s %s %s" % (names, forms, types))
        if dn != [wname] or [tuple(s) for s in ds] != [M.shape] or df[0] not in wform or dt != [wtype]:
            msgs.append("dir: %s %s %s %s, expected [%s] [%s] [%s] [%s]" % (dn, ds, df, dt, wname, M.shape, wform, wtype))
        if "False" in reads:
            for lbl, X in (("list", mats[0]), ("read", jm[wname]), ("dctload", d2[wname]), ("namelist", byname[wname])):
                if not same_bits(np.asarray(todense(X), dtype=complex), np.asarray(reads["False"], dtype=complex)):
                    msgs.append("%s API returns different values than load" % lbl)
        if len(none) != 0:
            msgs.append("namelist with an absent name returned matrices")
    except Exception as e:  # noqa
        msgs.append("secondary API raised %r" % (e,))
    return msgs


def configs(tier, cplx, which="all"):
    out = []
    for endian, sparse, inkind in itertools.product(("<", ">", "="), ("auto", "dense", "bigmat", "nonbigmat"), ("ndarray", "coo")):
        out.append((True, endian, sparse, 16, inkind))
    for digits, sparse, inkind in itertools.product((1, 5, 9, 16, 17), ("auto", "dense", "bigmat", "nonbigmat"), ("ndarray", "coo")):
        out.append((False, "=", sparse, digits, inkind))
    if which == "strings":  # string-partition study: layouts x endian; one ASCII width
        out = [c for c in out if c[0] or c[3] == 9]
    if which == "extra-input":
        out = [(True, "<", s, 16, k) for s in ("auto", "nonbigmat", "dense", "bigmat") for k in ("csr", "csc", "coo_dup", "csr_dup")] + \
              [(False, "=", s, 9, k) for s in ("auto", "bigmat", "dense", "nonbigmat") for k in ("csr", "csc", "coo_dup", "csr_dup")]
    return out


def structure_sig(M):
    r, c = M.shape
    nz = M != 0
    runs = 0
    for j in range(c):
        col = nz[:, j]
        runs = max(runs, int(np.count_nonzero(np.diff(np.concatenate(([0], col.astype(int)))) == 1)))
    return "%dx%d/nnz%d/maxstrings%d/%s%s" % (r, c, int(nz.sum()), runs, "emptycol" if (~nz.any(axis=0)).any() else "fullcols",
                                               "+emptyrow" if (~nz.any(axis=1)).any() else "")


def run_matrix(M, tier, res, case_base, which="all", forms=(None,)):
    fname = os.path.join(scratch(), "m_%d.op4" % os.getpid())
    cplx = np.iscomplexobj(M)
    for ic, cfg in enumerate(configs(tier, cplx, which)):
        for form in forms:
            # the secondary APIs (list/read/dctload/dir/namelist) share the decoders: exercised on every 4th configuration
            msgs = roundtrip(M, cfg, fname, res, form=form, secondary=(ic % 4 == (M.shape[0] + M.shape[1]) % 4) or which != "all")
            res.ev("%s/%s/b%d/%s/%s/d%d/%s" % (structure_sig(M), case_base.get("vclass", "-") + ("c" if cplx else "r"), cfg[0], cfg[1], cfg[2], cfg[3], cfg[4]),
                   outcome=None)
            for m in msgs:
                case = dict(case_base, cfg=list(cfg), form=form)
                res.viol(case, "op4 %s %s sparse=%s digits=%d input=%s: %s" % ("binary" if cfg[0] else "ascii", cfg[1], cfg[2], cfg[3], cfg[4], m),
                         kind=("ascii" if not cfg[0] else "bin") + "-" + cfg[2] + "-" + m.split(":")[0][:22] + ("-" + m.split(":")[1][:18] if ":" in m else ""))


# ------------------------------------------------------------------ enumeration
def small_cases(tier):
    q = tier == "quick"
    vcs = ["o1", "signs", "exp3", "mixcplx", "dblmax"] if q else list(VALUE_CLASSES)
    out = []
    for r, c in itertools.product((1, 2, 3), (1, 2, 3)):
        n = r * c
        pats = range(2 ** n)
        if q and n == 9:
            pats = range(0, 512, 5)
        if q and n == 6:
            pats = range(0, 64, 1)
        for p in pats:
            for vc in vcs:
                for cplx in (False, True):
                    if q and cplx and vc in ("signs",):
                        continue
                    if vc == "mixcplx" and not cplx:
                        continue
                    out.append(dict(kind="small", r=r, c=c, pattern=p, vclass=vc, cplx=cplx))
    for p in range(1024):
        for vc in (["o1"] if q else ["o1", "exp3"]):
            out.append(dict(kind="small", r=10, c=1, pattern=p, vclass=vc, cplx=False))
    for p in range(64 if not q else 16):
        out.append(dict(kind="small", r=1, c=6 if not q else 4, pattern=p, vclass="signs", cplx=bool(p & 1)))
    return out


def writer_object_history(res):
    """K2 over one OP4 object used as writer and reader: EVERY ordered pair (and selected triples) of write/read
    events over 7 configurations; each written file must be byte-identical to the file a fresh object writes, each
    read equal to a fresh object's read"""
    from pyyeti.nastran import op4

    msgs = []
    M1 = make_matrix(3, 2, 0b101101, "signs", False)
    M2 = make_matrix(2, 3, 0b011011, "mixcplx", True)
    cfgs = [dict(binary=True, endian="<", sparse="dense"), dict(binary=True, endian=">", sparse="bigmat"), dict(binary=True, endian="<", sparse="nonbigmat"),
            dict(binary=False, digits=9, sparse="dense"), dict(binary=False, digits=16, sparse="bigmat"), dict(binary=False, digits=5, sparse="nonbigmat"),
            dict(binary=True, endian=">", sparse="dense", forms=[2, 2])]
    names = ["aa", "bb"]
    base = os.path.join(scratch(), "wh_%d" % os.getpid())

    def fresh_bytes(k):
        fn = base + "_f%d.op4" % k
        op4.OP4().write(fn, names, [M1, M2], **cfgs[k])
        with open(fn, "rb") as f:
            return f.read()

    with warnings.catch_warnings():
        warnings.simplefilter("ignore")
        ref = [fresh_bytes(k) for k in range(len(cfgs))]
        seqs = [(a, b) for a in range(len(cfgs)) for b in range(len(cfgs))] + [(a, (a + 3) % 7, (a + 5) % 7) for a in range(7)]
        for seq in seqs:
            o = op4.OP4()
            res.traces += 1
            for step, k in enumerate(seq):
                fn = base + "_h.op4"
                res.transitions += 1
                try:
                    o.write(fn, names, [M1.copy(), M2.copy()], **cfgs[k])
                    with open(fn, "rb") as f:
                        got = f.read()
                    back = o.listload(fn)
                except Exception as e:  # noqa
                    msgs.append((list(seq), "OP4 object history %s: event %d raised %r" % ([cfgs[j] for j in seq], step + 1, e)))
                    break
                if got != ref[k]:
                    msgs.append((list(seq), "OP4 object history %s: the file written by event %d differs from the file a fresh OP4 object writes with the same options" % ([cfgs[j] for j in seq], step + 1)))
                    break
                if back[0] != names or not all(np.allclose(todense(X), Y, rtol=1e-4 if cfgs[k].get("digits") == 5 else 1e-8, atol=0) for X, Y in zip(back[1], (M1, M2))):
                    msgs.append((list(seq), "OP4 object history %s: reading back with the same object after event %d gives wrong content" % ([cfgs[j] for j in seq], step + 1)))
                    break
    res.states += len(seqs)
    res.ev("writer-object-history", n=0)
    return msgs


def boundary_cases(tier):
    out = []
    for rows in (65535, 65536, 65537):
        out.append(dict(kind="tall", rows=rows, cols=2, nz=[[0, 0], [rows - 1, 0], [rows // 2, 1], [rows // 2 + 1, 1]]))
    for L in (16383, 16384, 16385):
        out.append(dict(kind="densecol", rows=L + 3, L=L))
    for L in (2999, 3000, 3001):
        out.append(dict(kind="densecol", rows=L + 1, L=L))
        out.append(dict(kind="densecol_c", rows=L // 2 + 3, L=L // 2 + 1))
    out.append(dict(kind="zeros", r=3, c=2))
    out.append(dict(kind="zeros", r=1, c=1))
    out.append(dict(kind="forms"))
    out.append(dict(kind="dtypes"))
    out.append(dict(kind="asciidims"))
    out.append(dict(kind="names"))
    out.append(dict(kind="multi"))
    out.append(dict(kind="extra-input"))
    out.append(dict(kind="writer-history"))
    out.append(dict(kind="dict-api"))
    return out


def build_boundary(case):
    k = case["kind"]
    if k == "tall":
        M = np.zeros((case["rows"], case["cols"]))
        for n, (i, j) in enumerate(case["nz"]):
            M[i, j] = 1.25 * (n + 1) * (-1) ** n
        return M
    if k == "densecol":
        M = np.zeros((case["rows"], 2))
        M[1 : 1 + case["L"], 0] = np.arange(1, case["L"] + 1) * 0.5
        M[: min(case["rows"], 2), 1] = [3.0, -4.0][: min(case["rows"], 2)]
        return M
    if k == "densecol_c":
        M = np.zeros((case["rows"], 1), complex)
        M[1 : 1 + case["L"], 0] = np.arange(1, case["L"] + 1) * (0.5 - 0.25j)
        return M
    if k == "zeros":
        return np.zeros((case["r"], case["c"]))
    if k == "zerocols":
        return np.zeros((case["r"], case["c"]))
    raise KeyError(k)


def run_special(case, tier, res):
    from pyyeti.nastran import op4

    fname = os.path.join(scratch(), "s_%d.op4" % os.getpid())
    k = case["kind"]
    if k == "forms":
        Ms = {"sym": np.array([[1.0, 2.0], [2.0, 3.0]]), "unsym": np.array([[1.0, 2.0], [0.0, 3.0]]), "rect": np.array([[1.0, 0.0, 2.0]]),
              "nearsym": np.array([[1.0, 2.0], [2.0 * (1 + 1e-13), 3.0]])}
        for nm, M in Ms.items():
            run_matrix(M, tier, res, dict(case, which=nm), forms=(None, 1, 2, 6))
        return
    if k == "asciidims":
        # the 8-character integer fields of the ASCII format bound the matrix dimensions: at the documented limits a write
        # either round-trips or is refused loudly - it never produces a file that cannot be read back
        for (nr, nc), sparse in itertools.product(((2, 99999997), (2, 99999998), (2, 99999999), (2, 100000000), (99999998, 2), (99999999, 2), (100000000, 2)),
                                                  ("bigmat", "nonbigmat", "auto")):
            A = sp.coo_matrix(([1.5, -2.25, 3.0], ([0, 1, nr - 1], [0, nc - 1, 1])), shape=(nr, nc))
            case2 = dict(case, shape=[nr, nc], sparse=sparse)
            res.ev("asciidims/%s/%s" % ("cols" if nc > nr else "rows", sparse))
            try:
                op4.write(fname, "A", A, binary=False, sparse=sparse)
            except ValueError as e:
                res.exit("ASCII write refused loudly beyond the field-width limits")
                continue
            except Exception as e:  # noqa
                res.viol(case2, "ASCII write of a %dx%d sparse matrix raised %r" % (nr, nc, e), kind="asciidims-write")
                continue
            try:
                dn, ds, df, dt = op4.dir(fname, verbose=False)
                ln, lm, lf, lt = op4.load(fname, into="list", sparse=True)
                X = lm[0].tocoo()
                got = sorted(zip(X.row.tolist(), X.col.tolist(), X.data.tolist()))
                want = sorted(zip(A.row.tolist(), A.col.tolist(), A.data.tolist()))
                if tuple(ds[0]) != (nr, nc) or X.shape != (nr, nc) or got != want:
                    res.viol(case2, "ASCII write of a %dx%d sparse matrix was accepted but reads back as shape %s / %s with entries %s" % (nr, nc, tuple(ds[0]), X.shape, got[:4]), kind="asciidims-values")
            except Exception as e:  # noqa
                res.viol(case2, "ASCII write of a %dx%d sparse matrix (sparse=%s) was accepted, but the file cannot be read back: %r" % (nr, nc, sparse, e), kind="asciidims-read")
        return
    if k == "dtypes":
        # matrices held in any numeric dtype (integer, unsigned, bool, single precision, complex64), dense or scipy sparse:
        # the file holds their VALUES (all exactly representable) in every layout
        M0 = np.array([[1, 0, -3], [0, 200, 0], [7, 0, 5], [0, -128, 0]])
        for dt in (np.int64, np.int32, np.int16, np.int8, np.uint8, np.uint16, np.uint32, np.float32, np.complex64, bool, ">f8", "<f8", ">c16", "<c16", ">f4", ">i4"):
            A = (M0 != 0) if dt is bool else (np.abs(M0) if np.dtype(dt).kind == "u" else (np.clip(M0, -128, 127) if dt is np.int8 else M0)).astype(dt)
            if np.dtype(dt).kind == "c":
                A = A * (1 + 0.5j)
            want = np.asarray(A).astype(complex if np.dtype(dt).kind == "c" else float)
            for binary, sparse, cont in itertools.product((True, False), ("dense", "bigmat", "nonbigmat"), ("ndarray", "csr", "coo", "fortran")):
                if cont in ("csr", "coo") and np.dtype(dt).byteorder == ">":
                    continue  # (scipy.sparse wants native byte order)
                X = A if cont == "ndarray" else np.asfortranarray(A) if cont == "fortran" else {"csr": sp.csr_matrix, "coo": sp.coo_matrix}[cont](A)
                case2 = dict(case, dtype=np.dtype(dt).name, binary=binary, sparse=sparse, container=cont)
                res.ev("dtypes/%s/%s/b%d/%s" % (np.dtype(dt).name, cont, binary, sparse))
                try:
                    snap = A.copy()
                    op4.write(fname, "A", X, binary=binary, sparse=sparse)
                    ln, lm, lf, lt = op4.load(fname, into="list")
                    got = todense(lm[0])
                    if got.shape != want.shape or not np.array_equal(got, want):
                        res.viol(case2, "a %s matrix (%s) written with sparse=%s binary=%s reads back as %s, its values are %s"
                                 % (np.dtype(dt).name, cont, sparse, binary, got.tolist()[:2], want.tolist()[:2]), kind="dtypes-values")
                    elif lt[0] != (4 if np.dtype(dt).kind == "c" else 2):
                        res.viol(case2, "a %s matrix is stored with type %s (pyYeti writes double precision: 2 real / 4 complex)" % (np.dtype(dt).name, lt[0]), kind="dtypes-type")
                    if not np.array_equal(A, snap):
                        res.viol(case2, "op4.write modified the caller's matrix", kind="dtypes-mutated")
                except Exception as e:  # noqa
                    res.viol(case2, "write/read of a %s matrix (%s, sparse=%s, binary=%s) raised %r" % (np.dtype(dt).name, cont, sparse, binary, e), kind="dtypes-raise")
        return
    if k == "names":
        M = np.array([[1.0, 0.0], [2.0, 3.0]])
        for name in ("a", "Abcdefgh", "toolongname9", "1bad", "with space", "x_1"):
            for binary in (True, False):
                msgs = roundtrip(M, (binary, "=", "auto", 9, "ndarray"), fname, res, name=name)
                exp_warn = (not name.isidentifier()) or len(name) > 8
                res.ev("names/%s/b%d" % (name, binary))
                for m in msgs:
                    res.viol(dict(case, name=name, binary=binary), "name %r: %s" % (name, m), kind="names")
        return
    if k == "dict-api":
        # documented alternative: `names` is a mapping name -> matrix or name -> (matrix, form)
        Ms = {"alpha": make_matrix(3, 3, 0b110101011, "signs", False), "beta": make_matrix(2, 3, 0b011101, "mixcplx", True), "gam": np.zeros((2, 2))}
        for binary, sparse, endian in itertools.product((True, False), ("auto", "bigmat", "nonbigmat", "dense"), ("=", "", ">")):
            for style in ("plain", "withform", "mixed"):
                if style == "plain":
                    arg = dict(Ms)
                    wforms = {"alpha": 1, "beta": 2, "gam": 6}
                elif style == "withform":
                    arg = {"alpha": (Ms["alpha"], 1), "beta": [Ms["beta"], 2], "gam": (Ms["gam"], 6)}
                    wforms = {"alpha": 1, "beta": 2, "gam": 6}
                else:
                    arg = {"alpha": (Ms["alpha"], 6), "beta": Ms["beta"], "gam": (Ms["gam"], 1)}
                    wforms = {"alpha": 6, "beta": 2, "gam": 1}
                case2 = dict(case, binary=binary, sparse=sparse, endian=endian, style=style)
                res.ev("dict-api/b%d/%s/%s" % (binary, sparse, style))
                try:
                    with warnings.catch_warnings():
                        warnings.simplefilter("ignore")
                        op4.write(fname, arg, binary=binary, sparse=sparse, endian=endian, digits=16)
                        ln, lm, lf, lt = op4.load(fname, into="list")
                except Exception as e:  # noqa
                    res.viol(case2, "write(filename, mapping) raised %r" % (e,), kind="dict-api-raise")
                    continue
                if ln != list(arg) or [int(f) for f in lf] != [wforms[n] for n in ln]:
                    res.viol(case2, "write(filename, mapping): names/forms read back %s/%s, written %s/%s" % (ln, lf, list(arg), [wforms[n] for n in arg]), kind="dict-api-names")
                    continue
                for n, X in zip(ln, lm):
                    ok, why = close_digits(todense(X), Ms[n], 16)
                    if not ok:
                        res.viol(case2, "write(filename, mapping): matrix %s differs: %s" % (n, why), kind="dict-api-values")
        return
    if k == "writer-history":
        for seq, m in writer_object_history(res):
            res.viol(dict(case, seq=seq), m, kind="writer-history")
        return
    if k == "extra-input":
        for p in range(1, 64):
            for cplx in (False, True):
                M = make_matrix(3, 2, p, "signs", cplx)
                run_matrix(M, tier, res, dict(case, pattern=p, cplx=cplx), which="extra-input")
        return
    if k == "multi":
        pool = [("A", np.array([[1.0, 2.0], [3.0, 4.0]])), ("B", np.array([[0.0, 0.0, 5.0]])), ("A", np.array([[7.0], [0.0], [8.0 + 1j]])),
                ("C", np.zeros((2, 2)))]
        for n in (1, 2, 3):
            for seq in itertools.product(range(4), repeat=n):
                for binary, sparse in itertools.product((True, False), ("auto", "bigmat", "nonbigmat")):
                    names = [pool[i][0].lower() for i in seq]
                    mats = [pool[i][1] for i in seq]
                    case2 = dict(case, seq=list(seq), binary=binary, sparse=sparse)
                    res.ev("multi/n%d/b%d/%s/%s" % (n, binary, sparse, "rep" if len(set(names)) < n else "distinct"))
                    try:
                        with warnings.catch_warnings():
                            warnings.simplefilter("ignore")
                            op4.write(fname, names, mats, binary=binary, sparse=sparse, digits=12)
                            ln, lm, lf, lt = op4.load(fname, into="list")
                            dn, ds, df, dt = op4.dir(fname, verbose=False)
                            dct = op4.load(fname)
                            sub = op4.load(fname, namelist=["a", "c"], into="list")
                    except Exception as e:  # noqa
                        res.viol(case2, "multi-matrix file raised %r" % (e,), kind="multi-raise")
                        continue
                    bad = []
                    if ln != names or dn != names:
                        bad.append("names not in file order: %s / %s vs %s" % (ln, dn, names))
                    else:
                        for X, M in zip(lm, mats):
                            ok, why = close_digits(todense(X), M, 12)
                            if not ok:
                                bad.append("values: " + why)
                        if [tuple(s) for s in ds] != [M.shape for M in mats]:
                            bad.append("dir sizes %s" % (ds,))
                        want_sub = [nm for nm in names if nm in ("a", "c")]
                        if sub[0] != want_sub:
                            bad.append("namelist subset returned %s, expected %s" % (sub[0], want_sub))
                        if set(dct.keys()) != set(names):
                            bad.append("dict interface keys %s" % list(dct.keys()))
                    for b in bad:
                        res.viol(case2, "multi-matrix file: " + b, kind="multi-" + b.split(":")[0][:20])
        return
    M = build_boundary(case)
    which = "all"
    run_matrix(M, tier, res, case)


def forminfer_matrix(space, idx):
    """idx-th square matrix of a small value space: '4x4b' = all 0/1 matrices, '3x3t' = all matrices over {0,1,2},
    '3x3c' = all over {0, 1, 1j} (complex)"""
    if space == "4x4b":
        return np.array([(idx >> k) & 1 for k in range(16)], dtype=float).reshape(4, 4)
    digs = [(idx // 3 ** k) % 3 for k in range(9)]
    if space == "3x3t":
        return np.array(digs, dtype=float).reshape(3, 3)
    return np.array([[0, 1, 1j][d] for d in digs], dtype=complex).reshape(3, 3)


FORMINFER_SIZE = {"4x4b": 2 ** 16, "3x3t": 3 ** 9, "3x3c": 3 ** 9}


def forminfer_one(space, idx, fname, kinds=("ndarray", "csr", "coo", "csc")):
    """form inferred for a square matrix written without `forms`: 6 exactly when the matrix equals its transpose -
    whatever container it comes in (equal values at non-mirror positions must not look symmetric)"""
    from pyyeti.nastran import op4

    M = forminfer_matrix(space, idx)
    want = 6 if np.array_equal(M, M.T) else 1
    msgs = []
    for inkind in kinds:
        op4.write(fname, "A", as_input(M, inkind), binary=True)
        names, sizes, forms, types = op4.dir(fname, verbose=False)
        if [int(f) for f in forms] != [want]:
            msgs.append("write(%s input, forms=None) of %s: form %s recorded, the matrix is %s" % (inkind, M.tolist(), list(forms), "symmetric (6)" if want == 6 else "not symmetric (1)"))
    return msgs


def shards(tier, seed):
    sc = small_cases(tier)
    n = 96 if tier == "quick" else 256
    out = [dict(part="small", idx=list(range(i, len(sc), n)), tier=tier) for i in range(n)]
    for bc in boundary_cases(tier):
        out.append(dict(part="special", case=bc, tier=tier))
    for space, nsh in (("4x4b", 24), ("3x3t", 8), ("3x3c", 8)):
        for k in range(nsh):
            out.append(dict(part="forminfer", space=space, k=k, step=nsh, tier=tier))
    out.sort(key=lambda s: 0 if s["part"] in ("special", "forminfer") else 1)
    return out


def _m_string16(case, msg):
    """binary nonbigmat layout with a dense string of >= 16384 double words (8192 complex): L+1 no longer fits the
    16-bit field packed into a 32-bit IS word"""
    cfg = case.get("cfg") or [None] * 5
    return (case.get("kind") in ("densecol", "densecol_c") and cfg[0] is True and cfg[2] == "nonbigmat"
            and case.get("L", 0) * (2 if case.get("kind") == "densecol_c" else 1) >= 16384 and "write raised" in msg and "format requires" in msg)


FINDING_MATCHERS = {"C04-nonbigmat-string-16bit": _m_string16}


def run_shard(sh):
    res = Result()
    tier = sh["tier"]
    try:
        if sh["part"] == "small":
            sc = small_cases(tier)
            for i in sh["idx"]:
                c = sc[i]
                M = make_matrix(c["r"], c["c"], c["pattern"], c["vclass"], c["cplx"])
                run_matrix(M, tier, res, dict(c, tier=tier), which="strings" if c["r"] == 10 and tier == "quick" else "all")
            res.sample(dict(c, matrix=np.real(M).tolist()))
        elif sh["part"] == "forminfer":
            fname = os.path.join(scratch(), "fi_%d.op4" % os.getpid())
            for idx in range(sh["k"], FORMINFER_SIZE[sh["space"]], sh["step"]):
                for m in forminfer_one(sh["space"], idx, fname, ("ndarray", "csr") if tier == "quick" else ("ndarray", "csr", "coo", "csc")):
                    res.viol(dict(kind="forminfer", space=sh["space"], idx=idx, tier=tier), m, kind="forminfer-" + m.split()[0][:18])
                res.ev("forminfer/%s" % sh["space"], n=0)
            res.sample(dict(sh))
        else:
            run_special(sh["case"], tier, res)
            res.sample(dict(sh["case"]))
    finally:
        if _DIR and os.path.isdir(_DIR):
            shutil.rmtree(_DIR, ignore_errors=True)
    return res


def replay(case):
    res = Result()
    tier = case.get("tier", "quick")
    try:
        if case["kind"] == "forminfer":
            return forminfer_one(case["space"], case["idx"], os.path.join(scratch(), "r.op4"))
        if case["kind"] == "small":
            M = make_matrix(case["r"], case["c"], case["pattern"], case["vclass"], case["cplx"])
            fname = os.path.join(scratch(), "r.op4")
            return roundtrip(M, tuple(case["cfg"]), fname, res, form=case.get("form"))
        if case["kind"] in ("tall", "densecol", "densecol_c", "zeros", "zerocols") and "cfg" in case:
            fname = os.path.join(scratch(), "r.op4")
            return roundtrip(build_boundary(case), tuple(case["cfg"]), fname, res, form=case.get("form"))
        run_special({k: v for k, v in case.items() if k not in ("cfg", "form", "tier")}, tier, res)
        return [v["msg"] for v in res.viols]
    finally:
        if _DIR and os.path.isdir(_DIR):
            shutil.rmtree(_DIR, ignore_errors=True)
