"""C14 - coordinate systems and rigid-body geometry are mutually consistent
(K1 over all CORD2R/C/S chains of depth 1-3; R2 closed-form maps, R5)."""
import itertools
import math
import warnings

import numpy as np

from vf.core import Result

PROP = "C14"
LEVEL = "model_checking"
RULE = (
    "EVERY chain of CORD2R/C/S systems of depth 1-3 (39 type chains, each system defined in the local coordinates of its "
    "parent, by type) x 3 orientation/origin sets x 8 points per system away from the polar singularities x query system "
    "in {every system of the chain, basic} x reference point {grid id, xyz}; tables with a scalar point and a q-set grid; "
    "formrbe3 independent-DOF selections x weights x UM variants; replace_basic_cs with 3 new frames.  Oracle: own "
    "closed-form resolution of the chain (A-B-C construction) and point maps; points compared as points (angles modulo "
    "360); rbgeom_uset == per-grid local-frame projection of rbgeom of the basic coordinates; rbmove/rbcoords identities; "
    "RBE3 maps rigid motion of the independents exactly to the dependent grid; distances and relative frame "
    "orientations preserved by replace_basic_cs.  signature = chain types / geometry set / query"
)
ASSUMPTIONS = ["geometry sets are fixed, non-axis-aligned; points keep R >= 0.5 and polar angle in [25,155] degrees"]
D2R = math.pi / 180


def bounds(tier):
    return {"quick": "39 chains x 2 geometry sets x 4 points", "thorough": "39 chains x 3 geometry sets x 8 points"}.get(tier, "")


# ------------------------------------------------------------------ reference geometry (R2)
def to_rect(p, typ):
    p = np.asarray(p, float)
    if typ == 1:
        return p
    if typ == 2:
        return np.array([p[0] * math.cos(p[1] * D2R), p[0] * math.sin(p[1] * D2R), p[2]])
    st = math.sin(p[1] * D2R)
    return p[0] * np.array([st * math.cos(p[2] * D2R), st * math.sin(p[2] * D2R), math.cos(p[1] * D2R)])


def from_rect(g, typ):
    if typ == 1:
        return np.array(g)
    if typ == 2:
        return np.array([math.hypot(g[0], g[1]), math.atan2(g[1], g[0]) / D2R, g[2]])
    R = float(np.linalg.norm(g))
    return np.array([R, math.acos(max(-1.0, min(1.0, g[2] / R))) / D2R, math.atan2(g[1], g[0]) / D2R])


class Sys:
    def __init__(self, cid, typ, origin, T):
        self.cid, self.typ, self.o, self.T = cid, typ, origin, T

    def to_basic(self, local):
        return self.o + self.T @ to_rect(local, self.typ)

    def from_basic(self, p):
        return from_rect(self.T.T @ (p - self.o), self.typ)

    def grid_frame(self, p_basic):
        """columns = unit displacement directions of a grid at p_basic whose output system is this one"""
        if self.typ == 1:
            return self.T
        g = self.T.T @ (p_basic - self.o)
        if self.typ == 2:
            th = math.atan2(g[1], g[0])
            loc = np.array([[math.cos(th), -math.sin(th), 0], [math.sin(th), math.cos(th), 0], [0, 0, 1.0]])
            return self.T @ loc
        R = np.linalg.norm(g)
        th = math.acos(g[2] / R)
        ph = math.atan2(g[1], g[0])
        er = np.array([math.sin(th) * math.cos(ph), math.sin(th) * math.sin(ph), math.cos(th)])
        et = np.array([math.cos(th) * math.cos(ph), math.cos(th) * math.sin(ph), -math.sin(th)])
        ep = np.array([-math.sin(ph), math.cos(ph), 0.0])
        return self.T @ np.column_stack((er, et, ep))


BASIC = Sys(0, 1, np.zeros(3), np.eye(3))
GEO = [  # A, B, C as *rectangular offsets* (converted to the parent's coordinate type below)
    (np.array([1.0, -2.0, 0.5]), np.array([0.3, -0.5, 0.8]), np.array([1.0, 0.2, 0.1])),
    (np.array([0.5, 3.0, 1.0]), np.array([0.6, 0.6, 0.5]), np.array([-0.2, 1.0, 0.3])),
    (np.array([2.0, 1.0, -1.0]), np.array([-0.4, 0.2, 0.9]), np.array([0.9, 0.1, 0.4])),
]


def chain_defs(types, gset):
    """returns (list of 4x3 CORD2 definitions in the parent's local coordinates, list of resolved Sys)"""
    defs, syss = [], []
    parent = BASIC
    for k, t in enumerate(types):
        A0, zdir, xdir = GEO[(k + gset) % 3]
        Ar = A0 * (1.0 + 0.3 * k)
        Br = Ar + 1.7 * zdir / np.linalg.norm(zdir)
        Cr = Ar + 2.1 * xdir / np.linalg.norm(xdir) + 0.4 * zdir
        # express A, B, C in the parent's own coordinate type
        A, B, C = (from_rect(p, parent.typ) for p in (Ar, Br, Cr))
        cid = 101 + k
        defs.append(np.array([[cid, t, parent.cid], A, B, C], dtype=float))
        # resolve: points are in the parent's local frame
        a, b, c = (parent.to_basic(p) for p in (A, B, C))
        z = (b - a) / np.linalg.norm(b - a)
        y = np.cross(z, c - a)
        y /= np.linalg.norm(y)
        x = np.cross(y, z)
        s = Sys(cid, t, a, np.column_stack((x, y, z)))
        syss.append(s)
        parent = s
    return defs, syss


def local_points(typ, n):
    if typ == 1:
        pts = [[1.0, 2.0, 3.0], [-2.5, 0.5, 1.0], [0.3, -1.7, -2.2], [4.0, 4.0, -1.0], [-1.0, -1.0, 0.5], [2.0, -3.0, 1.5], [0.7, 0.9, -0.4], [-3.0, 2.0, 2.0]]
    elif typ == 2:
        pts = [[2.0, 30.0, 1.0], [0.5, 170.0, -2.0], [3.5, 200.0, 0.5], [1.2, 355.0, 3.0], [2.2, 91.0, -1.0], [0.9, 269.0, 0.2], [4.0, 10.0, 2.0], [1.0, 135.0, -3.0]]
    else:
        pts = [[2.0, 40.0, 30.0], [0.5, 155.0, 170.0], [3.5, 90.0, 200.0], [1.2, 25.0, 355.0], [2.2, 120.0, 91.0], [0.9, 60.0, 269.0], [4.0, 100.0, 10.0], [1.0, 75.0, 135.0]]
    return pts[:n]


def same_point(a, b, typ, tol=1e-9):
    a, b = np.asarray(a, float), np.asarray(b, float)
    if typ == 1:
        return np.allclose(a, b, rtol=0, atol=tol * max(1.0, np.abs(b).max()))
    ang = [1] if typ == 2 else [1, 2]
    for i in range(3):
        if i in ang:
            d = (a[i] - b[i] + 180.0) % 360.0 - 180.0
            if abs(d) > 1e-7:
                return False
        elif abs(a[i] - b[i]) > tol * max(1.0, abs(b[i])):
            return False
    return True


# ------------------------------------------------------------------ checks
def check_chain(types, gset, npts, res):
    from pyyeti.nastran import n2p

    msgs = []
    defs, syss = chain_defs(types, gset)
    allsys = [BASIC] + syss
    # build a table: for every system X of the chain, npts grids entered in X with output system X; plus a scalar point and a q-set grid
    gids, sets, cin, xyz, cout, truth = [], [], [], [], [], []
    gid = 1
    for xi, X in enumerate(allsys):
        for p in local_points(X.typ, npts):
            gids.append(gid)
            sets.append("b")
            cin.append(0 if X.cid == 0 else defs[xi - 1])
            cout.append(0 if X.cid == 0 else defs[xi - 1])
            xyz.append(p)
            truth.append((gid, X, X.to_basic(p), np.array(p)))
            gid += 1
    try:
        with warnings.catch_warnings():
            warnings.simplefilter("ignore")
            coordref = {}
            # systems must be known before grids defined in deeper systems: add in chain order (addgrid resolves parents from coordref)
            uset = n2p.addgrid(None, gids, sets, cin, xyz, cout, coordref)
    except Exception as e:  # noqa
        return ["addgrid raised %r for chain %s" % (e, types)]
    # the same table built incrementally: one grid per call, systems referenced by integer id once they are known
    # (through the growing table, and - for separate tables - through a shared coordref dictionary)
    try:
        with warnings.catch_warnings():
            warnings.simplefilter("ignore")
            u2 = None
            known = set()
            cref = {}
            for g, st, ci, p, co in zip(gids, sets, cin, xyz, cout):
                cid = 0 if isinstance(ci, int) else int(ci[0, 0])
                arg = cid if (cid in known or cid == 0) else ci
                u2 = n2p.addgrid(u2, g, st, arg, p, arg, cref)
                known.add(cid)
                # chain parents become known as soon as a child system is resolved
            parts = []
            cref2 = {}
            for g, st, ci, p, co in zip(gids, sets, cin, xyz, cout):
                cid = 0 if isinstance(ci, int) else int(ci[0, 0])
                arg = cid if (cid in cref2 or cid == 0) else ci
                parts.append(n2p.addgrid(None, g, st, arg, p, arg, cref2))
        a, b = uset.values.astype(float), u2.values.astype(float)
        if a.shape != b.shape or list(uset.index) != list(u2.index) or not np.allclose(a, b, rtol=0, atol=1e-12 * max(1.0, np.abs(a).max())):
            msgs.append("chain %s: table built one grid per call (systems referenced by id) differs from the single-call table" % (types,))
        import pandas as pd

        k0 = next((i for i, ci in enumerate(cin) if not isinstance(ci, int)), None)
        if k0 is not None and all(not isinstance(ci, int) for ci in cin[k0:]):
            # coordinate systems handed over as one stacked (n, 4, 3) array (sequence whose items are created on access)
            stack = np.array([np.asarray(ci, float) for ci in cin[k0:]])
            u4 = n2p.addgrid(None, gids[k0:], sets[k0:], stack, xyz[k0:], stack, {})
            a4 = uset.values.astype(float)[6 * k0 :]
            if u4.shape[0] != a4.shape[0] or not np.allclose(u4.values.astype(float), a4, rtol=0, atol=1e-12 * max(1.0, np.abs(a4).max())):
                msgs.append("chain %s: coordinate systems passed as a stacked (n,4,3) array give a different table than a list of 4x3 matrices" % (types,))
        u3 = pd.concat(parts, axis=0)
        c = u3.values.astype(float)
        if a.shape != c.shape or not np.allclose(a, c, rtol=0, atol=1e-12 * max(1.0, np.abs(a).max())):
            msgs.append("chain %s: separate tables sharing one coordref dictionary differ from the single-call table" % (types,))
        if sorted(k for k in cref2 if k != 0) != sorted(int(d[0, 0]) for d in defs):  # 0 = basic, always available
            msgs.append("chain %s: coordref holds systems %s after the calls, defined were %s" % (types, sorted(cref2), sorted(int(d[0, 0]) for d in defs)))
    except Exception as e:  # noqa
        msgs.append("chain %s: incremental addgrid calls raised %r" % (types, e))
    # several grids per query, listed in an order different from the table order
    for yi, Y in enumerate(allsys):
        ydef = 0 if Y.cid == 0 else defs[yi - 1]
        idl = [t[0] for t in truth]
        for order_name, ids_q in (("reversed", idl[::-1]), ("shuffled", idl[1::2] + idl[0::2]), ("subset", idl[2::3][::-1] + idl[:1])):
            try:
                with warnings.catch_warnings():
                    warnings.simplefilter("ignore")
                    Q = n2p.getcoordinates(uset, ids_q, ydef if order_name != "shuffled" else Y.cid)
            except Exception as e:  # noqa
                msgs.append("chain %s: getcoordinates(list of ids, %s order) raised %r" % (types, order_name, e))
                continue
            Q = np.atleast_2d(Q)
            for row, gq in zip(Q, ids_q):
                pbq = [t[2] for t in truth if t[0] == gq][0]
                if not same_point(row, Y.from_basic(pbq), Y.typ, 1e-8):
                    msgs.append("chain %s: getcoordinates(%s id list) row for grid %d is %s, that grid is at %s in system %d" % (types, order_name, gq, row.tolist(), Y.from_basic(pbq).tolist(), Y.cid))
                    break
    # locations handed over as integer-typed arrays / nested lists of ints (several rows per query)
    ipts = [[3, -4, 2], [0, 5, -1], [7, 0, 0], [-2, -2, 9]]
    for yi, Y in enumerate(allsys):
        for fname_, arg in (("int64 array", np.array(ipts, dtype=np.int64)), ("int32 array", np.array(ipts, dtype=np.int32)), ("list of ints", [list(p) for p in ipts]),
                            ("float array", np.array(ipts, dtype=float)), ("Fortran float array", np.asfortranarray(np.array(ipts, dtype=float)))):
            try:
                with warnings.catch_warnings():
                    warnings.simplefilter("ignore")
                    Q = np.atleast_2d(np.asarray(n2p.getcoordinates(uset, arg, Y.cid), dtype=float))
            except Exception as e:  # noqa
                msgs.append("chain %s: getcoordinates(locations as %s, system %d) raised %r" % (types, fname_, Y.cid, e))
                continue
            for row, p in zip(Q, ipts):
                if Q.shape != (len(ipts), 3) or not same_point(row, Y.from_basic(np.array(p, dtype=float)), Y.typ, 1e-8):
                    msgs.append("chain %s: getcoordinates(locations as %s) gives %s for the basic point %s; in system %d (type %d) that point is %s"
                                % (types, fname_, row.tolist(), p, Y.cid, Y.typ, Y.from_basic(np.array(p, dtype=float)).tolist()))
                    break
    uset_snapshot = uset.values.copy()
    for gidx, X, pb, ploc in truth:
        got = uset.loc[(gidx, 1), "x":"z"].values.astype(float)
        if not np.allclose(got, pb, rtol=0, atol=1e-9 * max(1.0, np.abs(pb).max())):
            msgs.append("chain %s: grid entered at %s in system %d (type %d) is at basic %s, expected %s" % (types, ploc.tolist(), X.cid, X.typ, got.tolist(), pb.tolist()))
            continue
        info = uset.loc[(gidx, 2):(gidx, 6), "x":"z"].values.astype(float)
        if X.cid and not (info[0, 0] == X.cid and info[0, 1] == X.typ and np.allclose(info[1], X.o, atol=1e-9) and np.allclose(info[2:], X.T, atol=1e-9)):
            msgs.append("chain %s: resolved coordinate system %d differs from the A-B-C construction (origin %s vs %s)" % (types, X.cid, info[1].tolist(), X.o.tolist()))
        for yi, Y in enumerate(allsys):
            ydef = 0 if Y.cid == 0 else defs[yi - 1]
            for form in ("id", "def", "xyz"):
                try:
                    if form == "id":
                        q = n2p.getcoordinates(uset, gidx, Y.cid)
                    elif form == "def":
                        q = n2p.getcoordinates(uset, gidx, ydef)
                    else:
                        q = n2p.getcoordinates(uset, np.array([pb]), Y.cid)
                        q = np.asarray(q).reshape(-1)
                except Exception as e:  # noqa
                    msgs.append("chain %s: getcoordinates(grid %d, system %d, %s) raised %r" % (types, gidx, Y.cid, form, e))
                    continue
                want = Y.from_basic(pb)
                res.ev("coords/%s/g%d/X%d>Y%d" % ("".join(map(str, types)), gset, X.typ, Y.typ), n=0)
                if not same_point(q, want, Y.typ):
                    msgs.append("chain %s: location entered in system %d and queried in %d (%s form) is %s, the same point is %s"
                                % (types, X.cid, Y.cid, form, np.asarray(q).tolist(), want.tolist()))
                if Y is X and not same_point(q, ploc, X.typ):
                    msgs.append("chain %s: location %s entered in system %d comes back as %s in the same system" % (types, ploc.tolist(), X.cid, np.asarray(q).tolist()))
    # rigid-body modes in local frames
    pbs = np.array([t[2] for t in truth])
    for ref in ([0.0, 0.0, 0.0], [1.0, -2.0, 3.0], truth[len(truth) // 2][0]):
        refxyz = pbs[[t[0] for t in truth].index(ref)] if isinstance(ref, int) else np.array(ref)
        try:
            with warnings.catch_warnings():
                warnings.simplefilter("ignore")
                rb = n2p.rbgeom_uset(uset, ref if isinstance(ref, int) else np.array([ref]))
        except Exception as e:  # noqa
            msgs.append("rbgeom_uset raised %r" % (e,))
            continue
        rbb = n2p.rbgeom(pbs, np.array([refxyz]))
        want = np.zeros_like(rbb)
        for i, (gidx, X, pb, _) in enumerate(truth):
            F = X.grid_frame(pb)
            want[6 * i : 6 * i + 3] = F.T @ rbb[6 * i : 6 * i + 3]
            want[6 * i + 3 : 6 * i + 6] = F.T @ rbb[6 * i + 3 : 6 * i + 6]
        sc = max(1.0, np.abs(want).max())
        if rb.shape != want.shape or not np.abs(rb - want).max() <= 1e-9 * sc:
            i = int(np.argmax(np.abs(rb - want).max(axis=1))) // 6
            msgs.append("chain %s: rbgeom_uset rows of grid %d (output system type %d) are not the rigid motion expressed in the grid's own frame (max diff %.3g)"
                        % (types, truth[i][0], truth[i][1].typ, np.abs(rb - want).max()))
        # reference-point consistency and location recovery (basic-frame modes)
        rb0 = n2p.rbgeom(pbs, np.array([[0.0, 0, 0]]))
        rb0_snap = rb0.copy()
        for other in ([2.0, -1.0, 0.5], [0.0, 3.0, 4.0]):  # the same modes moved to several points, one after the other
            mvo = n2p.rbmove(rb0, np.array([0.0, 0, 0]), np.array(other))
            if not np.array_equal(rb0, rb0_snap):
                msgs.append("rbmove modified the modes it was given")
                rb0 = rb0_snap.copy()
            if not np.allclose(mvo, n2p.rbgeom(pbs, np.array([other])), atol=1e-9 * max(1.0, np.abs(rb0_snap).max())):
                msgs.append("rbmove(rb, 0, %s) (after an earlier move of the same array) differs from modes built about the new reference" % (other,))
        # a reference given as a row index in any one-element form selects that grid
        k_ = len(pbs) // 2
        want_k = n2p.rbgeom(pbs, np.array([pbs[k_]]))
        for kform, kval in (("int", k_), ("numpy int", np.int64(k_)), ("[k]", [k_]), ("array([k])", np.array([k_])), ("nonzero()[0]", (np.arange(len(pbs)) == k_).nonzero()[0])):
            try:
                got_k = n2p.rbgeom(pbs, kval)
                if got_k.shape != want_k.shape or not np.allclose(got_k, want_k, atol=1e-12 * max(1.0, np.abs(want_k).max())):
                    msgs.append("rbgeom(grids, refpoint=%s as %s) is not the set of modes about grid row %d" % (k_, kform, k_))
            except Exception as e:  # noqa
                msgs.append("rbgeom(grids, refpoint given as %s) raised %r" % (kform, e))
        mv = n2p.rbmove(rb0, np.array([0.0, 0, 0]), refxyz)
        if not np.allclose(mv, rbb, atol=1e-9 * sc):
            msgs.append("rbmove(rb, 0, %s) differs from modes built about the new reference" % refxyz.tolist())
        co, mxdev, mxerr = n2p.rbcoords(rbb, verbose=0)
        if not np.allclose(co, pbs - refxyz, atol=1e-9 * sc):
            msgs.append("rbcoords does not recover the grid locations relative to the reference point")
        if not np.array_equal(uset.values.astype(float), uset_snapshot.astype(float), equal_nan=True):
            msgs.append("chain %s: the USET table was modified by getcoordinates / rbgeom_uset queries" % (types,))
            uset_snapshot = uset.values.copy()
        # documented: nodes may be in any mixture of (local) coordinate systems -> same locations, no deviation
        if rb.shape == want.shape:
            co2, mxdev2, mxerr2 = n2p.rbcoords(want, verbose=0)
            if not np.allclose(co2, pbs - refxyz, atol=1e-8 * sc):
                i = int(np.argmax(np.abs(co2 - (pbs - refxyz)).max(axis=1)))
                msgs.append("chain %s: rbcoords of local-frame rigid-body modes returns %s for grid %d (output system type %d), location relative to the reference is %s"
                            % (types, co2[i].tolist(), truth[i][0], truth[i][1].typ, (pbs - refxyz)[i].tolist()))
            elif mxdev2 > 1e-8 * sc:
                msgs.append("rbcoords reports a deviation %.3g for exact rigid-body modes" % mxdev2)
    return msgs


def check_special_rows(res):
    """scalar point and q-set grid rows are zero; everything else unaffected: EVERY placement of a block of 1, 2, 6 or 7
    scalar points before / between / after four grids x every choice of the q-set grid x rectangular-only and mixed
    (cylindrical, spherical) output systems; the table without the scalar points is the reference"""
    from pyyeti.nastran import n2p
    import pandas as pd

    msgs = []
    defs, syss = chain_defs((2, 3), 0)
    xyz = [[1.0, 2, 3], [0.5, -1.0, 2.0], [2.0, 40, 1], [3.0, 60, 120]]
    for cmode in ("mixed", "rect"):
        cs = [0, 0, defs[0], defs[1]] if cmode == "mixed" else [0, 0, 0, 0]
        locs = xyz if cmode == "mixed" else [[1.0, 2, 3], [0.5, -1.0, 2.0], [2.0, 4.0, 1.0], [3.0, 6.0, -2.0]]
        for qg in range(4):
            sets = ["q" if g == qg else "bcbc"[g] for g in range(4)]
            try:
                uset = n2p.addgrid(None, [1, 2, 3, 4], sets, cs, locs, cs, {})
                full = n2p.rbgeom_uset(uset, np.array([[0.0, 0, 0]]))
            except Exception as e:  # noqa
                msgs.append("rbgeom_uset on four grids (q-set grid #%d, %s systems) raised %r" % (qg, cmode, e))
                continue
            if np.abs(full[6 * qg : 6 * qg + 6]).max() != 0:
                msgs.append("q-set grid rows of rbgeom_uset are not zero (grid #%d, %s systems)" % (qg, cmode))
            for nsp, pos in itertools.product((1, 2, 6, 7), range(5)):
                sp = n2p.make_uset([[900 + k, 0] for k in range(nsp)], "q")
                u2 = pd.concat([uset.iloc[: 6 * pos], sp, uset.iloc[6 * pos :]])
                res.ev("special/%s/q%d/nsp%d/pos%d" % (cmode, qg, nsp, pos))
                tag = "%d scalar point(s) before grid #%d, q-set grid #%d, %s systems" % (nsp, pos, qg, cmode)
                try:
                    rb = n2p.rbgeom_uset(u2, np.array([[0.0, 0, 0]]))
                except Exception as e:  # noqa
                    msgs.append("rbgeom_uset raised %r (%s)" % (e, tag))
                    continue
                rows = list(range(6 * pos, 6 * pos + nsp))
                if rb.shape[0] != 24 + nsp or np.abs(rb[rows]).max() != 0:
                    msgs.append("scalar point rows of rbgeom_uset are not zero (%s)" % tag)
                elif not np.array_equal(np.delete(rb, rows, axis=0), full):
                    msgs.append("inserting scalar points changed the other rows of rbgeom_uset (%s)" % tag)
        if len(msgs) > 8:
            break
    return msgs


def check_rbe3(res):
    from pyyeti.nastran import n2p

    msgs = []
    defs, syss = chain_defs((2, 1, 3), 1)
    locs = [[1.0, 10.0, 0.5], [2.0, 130.0, -0.5], [1.5, 250.0, 1.0], [-1.0, 2.0, 0.3], [2.0, 70.0, 40.0], [0.2, 0.1, -0.3]]
    cin = [defs[0], defs[0], defs[0], defs[1], defs[2], 0]
    gids = [100, 200, 300, 400, 500, 600]
    for cout_mode in ("basic", "own"):
        cout = [0] * 6 if cout_mode == "basic" else cin
        uset = n2p.addgrid(None, gids, "b", cin, locs, cout, {})
        inds = {
            "123-all": [123, [100, 200, 300, 400, 500]],
            "123456-3": [123456, [100, 300, 500]],
            "mixed": [123, [100, 200, 300], 123456, [400], [12, 1.0], [500]],
            "weights": [[123, 1.0], [100, 200], [123, 2.0], [300], [123456, 0.5], [400, 500]],
            "digits-desc": [321, [100, 200, 300], 6415, [400]],
            "node-twice": [456, [100], 123, [100, 200], [3, 2.0], [300], 12, [300]],
        }
        ums = {"none": None, "um-indep": [100, 123, 200, 23, 300, 3], "um-mixed": [600, 123, 100, 12, 300, 3]}
        for (iname, il), (uname, um), ddof in itertools.product(inds.items(), ums.items(), (123456, 123)):
            if um is not None and ddof != 123456:
                continue
            if um is not None:
                entered = {600} | {g for k in range(1, len(il), 2) for g in (il[k] if isinstance(il[k], (list, tuple)) else [il[k]])}
                if not set(um[0::2]) <= entered:
                    continue  # documented: all m-set DOF must be among the previously entered DOF
            try:
                with warnings.catch_warnings():
                    warnings.simplefilter("ignore")
                    R = n2p.formrbe3(uset, 600, ddof, il, um)
            except Exception as e:  # noqa
                msgs.append("formrbe3(%s, %s, dof=%d, output %s) raised %r" % (iname, uname, ddof, cout_mode, e))
                continue
            res.ev("rbe3/%s/%s/%d/%s" % (iname, uname, ddof, cout_mode))
            rb = n2p.rbgeom_uset(uset, np.array([[0.3, -0.2, 0.9]]))
            # which DOF are dependent / independent, in table order
            dep = [(600, int(c)) for c in str(ddof)]
            ind = []
            k = 0
            while k < len(il):
                d = il[k]
                dd = d[0] if isinstance(d, (list, tuple)) else d
                g = il[k + 1]
                for gi in (g if isinstance(g, (list, tuple)) else [g]):
                    ind.extend((gi, int(c)) for c in str(int(dd)))
                k += 2
            if um is not None:
                mset = []
                for a, b in zip(um[0::2], um[1::2]):
                    mset.extend((a, int(c)) for c in str(b))
                allp = dep + ind
                dep2 = mset
                ind2 = [p for p in allp if p not in mset]
                dep, ind = dep2, ind2
            order = [tuple(i) for i in uset.index]
            dep = sorted(set(dep), key=order.index)
            ind = sorted(set(ind), key=order.index)
            if R.shape != (len(dep), len(ind)):
                msgs.append("formrbe3(%s, %s): shape %s, expected (%d, %d)" % (iname, uname, R.shape, len(dep), len(ind)))
                continue
            pd_, pi_ = [order.index(p) for p in dep], [order.index(p) for p in ind]
            err = np.abs(R @ rb[pi_] - rb[pd_]).max()
            res.err("rbe3_rigid_residual", err)
            if not err <= 1e-9 * max(1.0, np.abs(rb).max()):
                msgs.append("formrbe3(%s, UM=%s, dof=%d, output %s): rigid-body motion of the independent DOF is not reproduced at the dependent DOF (max error %.3g)"
                            % (iname, uname, ddof, cout_mode, err))
    return msgs


def check_replace_basic(res):
    from pyyeti.nastran import n2p

    msgs = []
    defs, syss = chain_defs((2, 3, 1), 2)
    locs = [[1.0, 2.0, 3.0], [2.0, 40.0, 1.0], [3.0, 60.0, 120.0], [0.5, -1.0, 2.0], [1.5, 200.0, -1.0]]
    cin = [0, defs[0], defs[1], defs[2], defs[0]]
    uset = n2p.addgrid(None, [1, 2, 3, 4, 5], "b", cin, locs, [0, defs[0], defs[1], defs[2], 0], {})
    frames = [np.array([[0.0, 0, 0], [0, 0, 1.0], [1.0, 0, 0]]) + np.array([5.0, -3.0, 2.0]),
              np.array([[1.0, 2.0, 3.0], [1.3, 2.5, 3.9], [2.0, 2.1, 2.9]]), np.array([[-4.0, 0.5, 0.0], [-4.0, 1.5, 0.2], [-3.0, 0.4, 0.7]])]
    for fi, abc in enumerate(frames):
        for form in ("4x3", "id+abc"):
            try:
                with warnings.catch_warnings():
                    warnings.simplefilter("ignore")
                    if form == "4x3":
                        new = n2p.replace_basic_cs(uset, np.vstack(([50, 1, 0], abc)))
                    else:
                        new = n2p.replace_basic_cs(uset, 50, abc)
            except Exception as e:  # noqa
                msgs.append("replace_basic_cs(frame %d, %s) raised %r" % (fi, form, e))
                continue
            res.ev("replace_basic/f%d/%s" % (fi, form))
            P0 = uset.loc[(slice(None), 1), "x":"z"].values.astype(float)
            P1 = new.loc[(slice(None), 1), "x":"z"].values.astype(float)
            d0 = np.linalg.norm(P0[:, None] - P0[None], axis=2)
            d1 = np.linalg.norm(P1[:, None] - P1[None], axis=2)
            if not np.allclose(d0, d1, atol=1e-9 * max(1.0, d0.max())):
                msgs.append("replace_basic_cs(frame %d): inter-grid distances changed" % fi)
            T0 = [uset.loc[(g, 4):(g, 6), "x":"z"].values.astype(float) for g in (1, 2, 3, 4, 5)]
            T1 = [new.loc[(g, 4):(g, 6), "x":"z"].values.astype(float) for g in (1, 2, 3, 4, 5)]
            for a in range(5):
                if not np.allclose(T1[a].T @ T1[a], np.eye(3), atol=1e-9) or np.linalg.det(T1[a]) < 0.99:
                    msgs.append("replace_basic_cs(frame %d): local frame of grid %d is no longer a right-handed orthonormal triad" % (fi, a + 1))
                for b in range(a):
                    if not np.allclose(T0[a].T @ T0[b], T1[a].T @ T1[b], atol=1e-9):
                        msgs.append("replace_basic_cs(frame %d): relative orientation of the frames of grids %d and %d changed" % (fi, a + 1, b + 1))
            # every grid keeps its location in its own (input / output) coordinate systems, and the rigid-body modes of the
            # re-based table are those of the original one expressed about rotated axes (the structure did not change)
            for g in (1, 2, 3, 4, 5):
                cid = int(uset.loc[(g, 2), "x"])
                if cid == 0:
                    continue
                try:
                    q0 = np.asarray(n2p.getcoordinates(uset, g, cid), float).ravel()
                    q1 = np.asarray(n2p.getcoordinates(new, g, cid), float).ravel()
                    typ = int(uset.loc[(g, 2), "y"])
                    if not same_point(q1, q0, typ, 1e-8):
                        msgs.append("replace_basic_cs(frame %d, %s): grid %d is at %s in its local system %d after the replacement, before it was at %s" % (fi, form, g, q1.tolist(), cid, q0.tolist()))
                except Exception as e:  # noqa
                    msgs.append("getcoordinates after replace_basic_cs(frame %d) raised %r" % (fi, e))
            try:
                rb_old = n2p.rbgeom_uset(uset, 1)
                rb_new = n2p.rbgeom_uset(new, 1)
                X = np.linalg.lstsq(rb_new, rb_old, rcond=None)[0]
                resid = np.abs(rb_new @ X - rb_old).max()
                if not (resid <= 1e-8 * max(1.0, np.abs(rb_old).max()) and np.allclose(X.T @ X, np.eye(6), atol=1e-8)):
                    msgs.append("replace_basic_cs(frame %d, %s): rigid-body modes of the re-based table (about grid 1, local output frames) are not the original modes about rotated axes (residual %.3g)" % (fi, form, resid))
            except Exception as e:  # noqa
                msgs.append("rbgeom_uset after replace_basic_cs(frame %d) raised %r" % (fi, e))
            if not np.array_equal(uset.values, n2p.addgrid(None, [1, 2, 3, 4, 5], "b", cin, locs, [0, defs[0], defs[1], defs[2], 0], {}).values):
                msgs.append("replace_basic_cs modified its input table")
            # the grid that was in basic is now in the new system 50, whose frame is the old basic
            if int(new.loc[(1, 2), "x"]) != 50:
                msgs.append("replace_basic_cs: grids that used the basic system do not reference the new id")
    return msgs


# ------------------------------------------------------------------ driver
def all_chains():
    out = []
    for d in (1, 2, 3):
        out.extend(itertools.product((1, 2, 3), repeat=d))
    return out


def shards(tier, seed):
    out = []
    gsets = (0, 1) if tier == "quick" else (0, 1, 2)
    npts = 4 if tier == "quick" else 8
    for ch in all_chains():
        for g in gsets:
            out.append(dict(part="chain", types=list(ch), gset=g, npts=npts))
    out += [dict(part="special"), dict(part="rbe3"), dict(part="replace")]
    r = seed % len(out)
    return out[r:] + out[:r]


def run_shard(sh):
    res = Result()
    p = sh["part"]
    if p == "chain":
        msgs = check_chain(tuple(sh["types"]), sh["gset"], sh["npts"], res)
        res.ev("chain/%s/g%d" % ("".join(map(str, sh["types"])), sh["gset"]), n=(len(sh["types"]) + 1) ** 2 * sh["npts"] * 3)
    elif p == "special":
        msgs = check_special_rows(res)
    elif p == "rbe3":
        msgs = check_rbe3(res)
    else:
        msgs = check_replace_basic(res)
    for m in msgs:
        res.viol(dict(sh), m, kind=p + "-" + m.split(":")[0][:12] + m.split(":")[-1][:25])
    res.sample(dict(sh))
    return res


def replay(case):
    res = Result()
    p = case["part"]
    if p == "chain":
        return check_chain(tuple(case["types"]), case["gset"], case["npts"], res)
    return {"special": check_special_rows, "rbe3": check_rbe3, "replace": check_replace_basic}[p](res)
