"""C12 - Nastran number fields have exact width and best precision and are
read back as floats; generic cards round-trip field for field in small,
large and large-double form, fixed == comma (K1 grid + reader histories)."""
import io
import itertools
import math
import warnings
from decimal import Decimal

import numpy as np

from vf.core import Result

PROP = "C12"
LEVEL = "model_checking"
RULE = (
    "floats: every decade 1e-320..1e308 x mantissa alphabet (for every precision p=1..16 the values that round up across a "
    "decade or across p digits: 9.9..95, 9.9..949, 1.0..05, 1.0..049, 4.9.., 5.0.., plus a committed salt pool) x sign x "
    "{format_float8, format_float16, format_double16}: exact width, nas_sscanf returns a float, error <= 1.01 x half a "
    "unit of the last digit of the best legal representation of that value in that width (brute-force search over fixed "
    "and exponent notations).  cards: all type mixes over {int,float,str,blank} for 1..5 fields, 4-periodic mixes with "
    "every phase for 6..60 fields x writer {wtcard8,wtcard16,wtcard16d} + comma rendering; files of 1-3 cards in every "
    "order with comments / unrelated cards between, read per name (reader coroutine); value collisions: EVERY sequence of 1..4 fields over {1, 1.0, 0, 0.0, -3, -3.0, str, blank}.  signature = formatter/decade "
    "class/branch, card length mod 8 / writer"
)
ASSUMPTIONS = [
    "a legal real field contains a decimal point; exponent notation omits the letter (d.ddd+ee) except in double style (D)",
    "string fields are chosen so that they cannot be mistaken for numbers",
]
EPS = 2.220446049250313e-16


def bounds(tier):
    return {"quick": "629 decades x 86 mantissas x 2 signs x 3 formatters; cards up to 60 fields", "thorough": "+ 2000-mantissa salt pool"}.get(tier, "")


# ------------------------------------------------------------------ best representation (R2)
def best_digits(x, w, style):
    """largest number of significant digits any legal representation of x in w characters can carry, and the decimal
    exponent e of x (x = d.ddd * 10^e).  style: 'E' (single: fixed or d.ddd+ee) or 'D' (d.dddD+ee only)"""
    ax = abs(x)
    e = int(math.floor(math.log10(ax))) if ax > 0 else 0
    # guard against log10 rounding at exact powers of ten
    if Decimal(ax) >= Decimal(10) ** (e + 1):
        e += 1
    elif Decimal(ax) < Decimal(10) ** e:
        e -= 1
    sign = 1 if x < 0 else 0
    n = len(str(abs(e)))
    best = 0
    if style == "D":
        best = max(best, 1 + (w - sign - 2 - 2 - n))  # d . fff D +/- nn
        return best, e
    best = max(best, 1 + (w - sign - 2 - 1 - n))  # d . fff +/- nn
    if e >= 0:
        k = e + 1
        frac = w - sign - k - 1
        if frac >= 0:
            best = max(best, k + frac)
    else:
        z = -e - 1  # zeros between the point and the first significant digit
        frac = w - sign - 1
        if frac - z >= 1:
            best = max(best, frac - z)
    return best, e


def halfulp_bound(x, w, style):
    p, e = best_digits(x, w, style)
    p = min(p, 17)
    return Decimal(1.01) * Decimal(5) * Decimal(10) ** (e - p), p, e


def check_float(x, fname, fn, res):
    from pyyeti.nastran import bulk

    msgs = []
    w = 8 if fname == "format_float8" else 16
    style = "D" if fname == "format_double16" else "E"
    try:
        s = fn(x)
    except Exception as e:  # noqa
        return ["%s(%r) raised %r" % (fname, x, e)], "raise"
    if not isinstance(s, str) or len(s) != w:
        msgs.append("%s(%r) = %r is not exactly %d characters" % (fname, x, s, w))
        return msgs, "width"
    v = bulk.nas_sscanf(s)
    if not isinstance(v, float):
        msgs.append("%s(%r) = %r is read back by nas_sscanf as %r (not a float)" % (fname, x, s, v))
        return msgs, "notfloat"
    if x == 0:
        if v != 0:
            msgs.append("%s(0.0) = %r reads back as %r" % (fname, s, v))
        return msgs, "zero"
    if style == "D" and "D" not in s.upper():
        msgs.append("%s(%r) = %r carries no D exponent" % (fname, x, s))
    bound, p, e = halfulp_bound(x, w, style)
    err = abs(Decimal(v) - Decimal(x))
    # values below the normal range cannot be held to p digits by the double that is read back
    tiny = Decimal(abs(x)) * Decimal(2.3e-16)
    sub = Decimal(5e-324) if abs(x) < 2.3e-308 else Decimal(0)
    res.err("%s/err_over_bound" % fname, float(err / bound) if bound > 0 else 0.0)
    if err > bound + tiny + sub:
        msgs.append("%s(%r) = %r reads back as %r: error %.3g exceeds half a unit of the last of the %d digits the width allows (%.3g)"
                    % (fname, x, s, v, float(err), p, float(bound)))
    kind = "sci" if ("+" in s.strip()[1:] or "-" in s.strip()[1:]) else "fixed"
    return msgs, "%s/%s/e%s" % (kind, "neg" if x < 0 else "pos", "<-3" if e < -3 else (">w" if e >= w - 1 else "mid"))


def mantissas(tier):
    out = ["1", "1.5", "2", "3.14159265358979", "4.999999", "5", "7.77", "9", "9.999999999999998", "1.2345678901234567",
           "1.000000000000001", "9.5", "9.4999999", "1.0000001", "6.02214076", "2.718281828459045"]
    for p in range(1, 17):
        nines = "9." + "9" * (p - 1) if p > 1 else "9."
        out.append(nines + "5")       # rounds up across the decade at p digits
        out.append(nines + "49")      # stays
        ones = "1." + "0" * (p - 1) if p > 1 else "1."
        out.append(ones + "5")
        out.append(ones + "49")
        out.append("4." + "9" * p)
    if tier != "quick":
        # committed salt pool: 2000 deterministic mantissas
        k = 12345
        for i in range(2000):
            k = (k * 1103515245 + 12345) % (2 ** 31)
            out.append("%d.%015d" % (1 + k % 9, (k * 7919) % 10 ** 15))
    return out


def shard_floats(sh):
    from pyyeti.nastran import bulk

    res = Result()
    fns = {"format_float8": bulk.format_float8, "format_float16": bulk.format_float16, "format_double16": bulk.format_double16}
    ms = mantissas(sh["tier"])
    for e in sh["exps"]:
        for m in ms:
            d = Decimal(m) * Decimal(10) ** e
            x0 = float(d)
            if x0 == 0.0 or math.isinf(x0):
                continue
            for x in (x0, -x0):
                for fname, fn in fns.items():
                    msgs, sig = check_float(x, fname, fn, res)
                    res.ev("%s/%s" % (fname, sig))
                    for msg in msgs:
                        nodot = "not a float" in msg
                        res.viol(dict(part="float", x=x, fn=fname), msg, kind=fname + "-" + ("notfloat" if nodot else msg.split()[-8]))
    for fname, fn in fns.items():
        for x in (0.0, -0.0):
            msgs, sig = check_float(x, fname, fn, res)
            for msg in msgs:
                res.viol(dict(part="float", x=x, fn=fname), msg, kind=fname + "-zero")
    x0 = float(Decimal(ms[5]) * Decimal(10) ** sh["exps"][len(sh["exps"]) // 2])
    res.sample(dict(part="float", exps=[sh["exps"][0], sh["exps"][-1]], example=dict(x=x0, float8=bulk.format_float8(x0), float16=bulk.format_float16(x0),
                                                                                       double16=bulk.format_double16(x0))))
    return res


# ------------------------------------------------------------------ cards
FLOATS = [1.5, -0.0025, 123456.789, -7.0e-12, 2.5e20, 0.1, -999.25, 3.0]
INTS = [7, -12, 100200, 0, 99999999, 5]
STRS = ["ABC", "THRU", "XY_Z", "GRIDPT"]


def make_fields(types, phase=0):
    out = []
    for i, t in enumerate(types):
        if t == "i":
            out.append(INTS[(i + phase) % len(INTS)])
        elif t == "f":
            out.append(FLOATS[(i + phase) % len(FLOATS)])
        elif t == "s":
            out.append(STRS[(i + phase) % len(STRS)])
        else:
            out.append("")
    return out


def render(writer, name, fields):
    from pyyeti.nastran import bulk

    f = io.StringIO()
    {"8": bulk.wtcard8, "16": bulk.wtcard16, "16d": bulk.wtcard16d}[writer](f, [name + ("*" if writer != "8" else "")] + fields)
    return f.getvalue()


def field_text(writer, v):
    from pyyeti.nastran import bulk

    if v == "":
        return ""
    if isinstance(v, str):
        return v
    if isinstance(v, int):
        return str(v)
    return {"8": bulk.format_float8, "16": bulk.format_float16, "16d": bulk.format_double16}[writer](v).strip()


def render_comma(writer, name, fields):
    lines = []
    cur = [name]
    for i, v in enumerate(fields):
        if i > 0 and i % 8 == 0:
            lines.append(",".join(cur))
            cur = [""]
        cur.append(field_text(writer, v))
    lines.append(",".join(cur))
    return "\n".join(lines) + "\n"


def expected_fields(writer, fields):
    w = 8 if writer == "8" else 16
    out = list(fields)
    while out and out[-1] == "":
        out.pop()
    return out


def fields_match(got, want, writer):
    from pyyeti.nastran import bulk

    got = list(got)
    while got and got[-1] == "":  # trailing blank fields carry no information (a padded large-field line reads as blanks)
        got.pop()
    if len(got) != len(want):
        return "returned %d fields, wrote %d (after dropping trailing blanks): %s vs %s" % (len(got), len(want), got, want)
    for i, (g, w_) in enumerate(zip(got, want)):
        if isinstance(w_, float):
            if not isinstance(g, float):
                return "field %d: wrote float %r, read %r" % (i + 1, w_, g)
            b, p, e = halfulp_bound(w_, 8 if writer == "8" else 16, "D" if writer == "16d" else "E")
            if abs(Decimal(g) - Decimal(w_)) > b + Decimal(abs(w_)) * Decimal(3e-16):
                return "field %d: wrote %r, read %r" % (i + 1, w_, g)
        elif isinstance(w_, int):
            if not (isinstance(g, int) and g == w_):
                return "field %d: wrote int %r, read %r" % (i + 1, w_, g)
        elif g != w_:
            return "field %d: wrote %r, read %r" % (i + 1, w_, g)
    return None


COLLIDE = [1, 1.0, 0, 0.0, -3, -3.0, "A", ""]


def check_card(types, phase, writer, res, fields=None):
    from pyyeti.nastran import bulk

    msgs = []
    if fields is None:
        fields = make_fields(types, phase)
    if not any(f != "" for f in fields):
        return msgs
    want = expected_fields(writer, fields)
    try:
        text = render(writer, "MYCARD", fields)
    except Exception as e:  # noqa
        return ["wtcard%s raised %r for %s" % (writer, e, fields)]
    for ln in text.splitlines():
        if len(ln) > 80:
            msgs.append("wtcard%s wrote a line longer than 80 characters" % writer)
    for form, txt in (("fixed", text), ("comma", render_comma(writer, "MYCARD" + ("*" if writer != "8" and False else ""), fields))):
        try:
            with warnings.catch_warnings():
                warnings.simplefilter("ignore")
                got = bulk.rdcards(io.StringIO(txt), "mycard", return_var="list")
        except Exception as e:  # noqa
            msgs.append("rdcards raised %r on the %s form written by wtcard%s" % (e, form, writer))
            continue
        if got is None or len(got) != 1:
            msgs.append("rdcards found %s cards in the %s form (wtcard%s)" % (None if got is None else len(got), form, writer))
            continue
        why = fields_match(list(got[0]), want, writer)
        if why:
            msgs.append("%s form (wtcard%s, %d fields): %s" % (form, writer, len(fields), why))
            continue
        # the other return forms are projections of the list form: strings and blanks become `blank`
        try:
            with warnings.catch_warnings():
                warnings.simplefilter("ignore")
                arr = bulk.rdcards(io.StringIO(txt), "mycard", blank=-9.5)
                lst2 = bulk.rdcards(io.StringIO(txt), "mycard", return_var="list", keep_name=True, blank=None)
                dct = bulk.rdcards(io.StringIO(txt), "mycard", return_var="dict", blank=-9.5)
        except Exception as e:  # noqa
            msgs.append("rdcards (array/dict/keep_name) raised %r on the %s form written by wtcard%s" % (e, form, writer))
            continue
        base = list(got[0])
        proj = np.array([[-9.5 if (isinstance(v, str)) else float(v) for v in base]])
        if arr is None or arr.shape != proj.shape or not np.array_equal(arr, proj):
            msgs.append("%s form (wtcard%s): array form %s is not the list form with strings/blanks replaced by `blank` %s" % (form, writer, None if arr is None else arr.tolist(), proj.tolist()))
        if not (isinstance(lst2, list) and len(lst2) == 1 and str(lst2[0][0]).lower().startswith("mycard") and list(lst2[0][1:]) == base):
            msgs.append("%s form (wtcard%s): keep_name=True does not return [name] + fields: %s" % (form, writer, lst2))
        key = base[0] if not isinstance(base[0], str) else -9.5
        if not (isinstance(dct, dict) and len(dct) == 1 and key in dct and np.array_equal(np.asarray(dct[key]).ravel(), proj.ravel())):
            msgs.append("%s form (wtcard%s): dict form %s is not {first value: row}" % (form, writer, dct))
    return msgs


def shard_cards(sh):
    res = Result()
    T = "ifs-"
    todo = []
    if sh["which"] == "short":
        for n in range(1, 6):
            for types in itertools.product(T, repeat=n):
                todo.append(("".join(types), 0))
    else:
        base = ["ifs-", "fi-s", "sfi-", "-sfi", "ff-i", "i-fs"]
        for n in range(6, 61):
            for b in base[:4]:
                for phase in range(4):
                    types = "".join(b[(k + phase) % 4] for k in range(n))
                    todo.append((types, phase))
    if sh["which"] != "short":
        # whole continuation lines that are blank (8 small fields / 4 large fields), single and consecutive, after a
        # line that ends in a blank or a non-blank field
        for n in (20, 28, 33):
            for L in (4, 8, 12, 16):
                for a in range(3, n - L, 1 if L == 8 else 4):
                    base = ["ifsf"[k % 4] for k in range(n)]
                    for k in range(a, a + L):
                        base[k] = "-"
                    todo.append(("".join(base), 0))
    for types, phase in todo:
        for writer in ("8", "16", "16d"):
            msgs = check_card(types.replace("-", "b"), phase, writer, res)
            res.ev("card/%s/n%dmod8=%d/%s" % (writer, min(len(types), 9), len(types) % 8, "trailblank" if types.endswith("-") else "full"))
            for m in msgs:
                res.viol(dict(part="card", types=types, phase=phase, writer=writer), m, kind="card-" + writer + "-" + m.split(":")[0][:30])
    res.sample(dict(part="card", types=types, writer="16", text=render("16", "MYCARD", make_fields(types.replace("-", "b"), phase))))
    return res


def shard_collide(sh):
    """value collisions inside one card: EVERY sequence of 1..4 fields over a menu in which an int, the float of
    equal value, zero in both types, a string and a blank occur (each field must be written independently of the
    others: same value, other type earlier in the card)"""
    res = Result()
    first = sh["first"]
    for n in range(1, 5):
        for rest in itertools.product(range(len(COLLIDE)), repeat=n - 1):
            idx = (first,) + rest
            fields = [COLLIDE[i] for i in idx]
            for writer in ("8", "16", "16d"):
                msgs = check_card(None, 0, writer, res, fields=fields)
                res.ev("collide/%s/n%d" % (writer, n))
                for m in msgs:
                    res.viol(dict(part="collide", idx=list(idx), writer=writer), m, kind="collide-" + writer + "-" + m.split(":")[0][:30])
    res.sample(dict(part="collide", idx=list(idx)))
    return res


def shard_files(sh):
    """files with 1-3 cards of two names in every order, comments and unrelated cards between; read per name"""
    from pyyeti.nastran import bulk

    res = Result()
    cards = {"A1": ("CARDA", "8", make_fields("ifsbfi", 0)), "A2": ("CARDA", "16", make_fields("ffissbbfi", 1)),
             "B1": ("CARDB", "16d", make_fields("fibbs", 2)), "A3": ("CARDA", "8", make_fields("iiiiiiiiiiif", 3))}
    fillers = ["$ a comment line\n", "OTHER   1       2.5     \n", "$\n", "CARDAX  99\n", "OTHER2,1,2,3\n"]
    for n in (1, 2, 3):
        for seq in itertools.permutations(cards, n):
            for fill in itertools.product(range(len(fillers) + 1), repeat=2):
                txt = ""
                for k, cid in enumerate(seq):
                    name, writer, fields = cards[cid]
                    if k < 2 and fill[k] < len(fillers):
                        txt += fillers[fill[k]]
                    if k % 2 == 0:
                        txt += render(writer, name, fields)
                    else:
                        txt += render_comma(writer, name, fields)
                res.ev("file/n%d/%s" % (n, "".join(c[0] for c in seq)))
                res.transitions += n
                res.states += 1
                for name in ("CARDA", "CARDB"):
                    want = [(cid, expected_fields(cards[cid][1], cards[cid][2]), cards[cid][1]) for cid in seq if cards[cid][0] == name]
                    try:
                        with warnings.catch_warnings():
                            warnings.simplefilter("ignore")
                            got = bulk.rdcards(io.StringIO(txt), name.lower() + " " if False else name, return_var="list", no_data_return=[])
                    except Exception as e:  # noqa
                        res.viol(dict(part="file", seq=list(seq), fill=list(fill), name=name), "rdcards raised %r" % (e,), kind="file-raise")
                        continue
                    # 'CARDA' also matches the unrelated 'CARDAX' card by prefix (documented: name is matched at line start)
                    got = [g for g in (got or []) if not (len(g) == 1 and g[0] == 99)]
                    if len(got) != len(want):
                        res.viol(dict(part="file", seq=list(seq), fill=list(fill), name=name),
                                 "rdcards(%s) returned %d cards, file holds %d" % (name, len(got), len(want)), kind="file-count")
                        continue
                    for g, (cid, w_, writer) in zip(got, want):
                        why = fields_match(list(g), w_, writer)
                        if why:
                            res.viol(dict(part="file", seq=list(seq), fill=list(fill), name=name), "card %s in a multi-card file: %s" % (cid, why),
                                     kind="file-fields")
    res.sample(dict(part="file", text=txt))
    return res


# ------------------------------------------------------------------ driver
def check_freefield(res):
    """free-field (comma) cards written by hand with full-precision numbers: physical lines of every length from short to
    well beyond 72 / 80 columns, on the first line and on continuation lines; every value is read back as Python reads
    its text"""
    from pyyeti.nastran import bulk

    msgs = []
    vals = [-2.718281828459e-07, 3.141592653589793, -1.0e-300, 6.02214076e+23, 12345678.901234567, -0.000123456789012, 299792458.5, -9.80665, 1.6180339887498949, 42.25]  # (every text form has a decimal point or an exponent: reals)
    for nf, fmt, ncards in itertools.product((1, 3, 5, 8, 9, 16, 17), ("%.6g", "%.12g", "%.17g", "%r"), (1, 2)):
        fields = [vals[i % len(vals)] * (1 + 0.125 * (i // len(vals))) for i in range(nf)]
        txt = ""
        for c in range(ncards):
            cur = ["MYCARD", str(7 + c)]  # an integer id first
            lines = []
            for i, v in enumerate(fields):
                if len(cur) == 9:
                    lines.append(",".join(cur))
                    cur = [""]
                cur.append(fmt % v)
            lines.append(",".join(cur))
            txt += "\n".join(lines) + "\n"
        want = [float(fmt % v) for v in fields]
        if any(("." not in (fmt % v)) and ("e" not in (fmt % v)) for v in fields):
            continue  # a text without decimal point or exponent is an integer field
        maxlen = max(len(l) for l in txt.splitlines())
        res.ev("freefield/nf%d/%s/len%s" % (nf, fmt, "le72" if maxlen <= 72 else "le80" if maxlen <= 80 else "gt80"))
        try:
            with warnings.catch_warnings():
                warnings.simplefilter("ignore")
                got = bulk.rdcards(io.StringIO(txt), "mycard", return_var="list")
        except Exception as e:  # noqa
            msgs.append(("freefield", "rdcards raised %r on a free-field card with lines up to %d characters" % (e, maxlen)))
            continue
        if got is None or len(got) != ncards:
            msgs.append(("freefield", "rdcards found %s free-field cards, %d written (lines up to %d characters)" % (None if got is None else len(got), ncards, maxlen)))
            continue
        for c, row in enumerate(got):
            row = list(row)
            while row and row[-1] == "":
                row.pop()
            if row[:1] != [7 + c] or len(row) != nf + 1 or any(not isinstance(g, float) or g != w for g, w in zip(row[1:], want)):
                msgs.append(("freefield", "free-field card #%d with %d reals written as %s (lines up to %d characters) reads back as %s; written %s" % (c + 1, nf, fmt, maxlen, row[:6], ([7 + c] + want)[:6])))
                break
    return msgs


def shard_freefield(sh):
    res = Result()
    for tag, m in check_freefield(res):
        res.viol(dict(part="freefield"), m, kind="freefield-" + m.split()[1])
    res.sample(dict(part="freefield"))
    return res


def shards(tier, seed):
    exps = list(range(-324, 309))
    n = 48
    out = [dict(part="floats", exps=exps[i::n], tier=tier) for i in range(n)]
    out.append(dict(part="cards", which="short", tier=tier))
    out.append(dict(part="cards", which="long", tier=tier))
    out.append(dict(part="files", tier=tier))
    out.append(dict(part="freefield", tier=tier))
    for first in range(len(COLLIDE)):
        out.append(dict(part="collide", first=first))
    r = seed % len(out)
    return out[r:] + out[:r]


def run_shard(sh):
    return {"floats": shard_floats, "cards": shard_cards, "files": shard_files, "collide": shard_collide, "freefield": shard_freefield}[sh["part"]](sh)


def replay(case):
    from pyyeti.nastran import bulk

    res = Result()
    if case["part"] == "freefield":
        return [m for t, m in check_freefield(res)]
    if case["part"] == "float":
        return check_float(case["x"], case["fn"], getattr(bulk, case["fn"]), res)[0]
    if case["part"] == "collide":
        return check_card(None, 0, case["writer"], res, fields=[COLLIDE[i] for i in case["idx"]])
    if case["part"] == "card":
        return check_card(case["types"].replace("-", "b"), case["phase"], case["writer"], res)
    r = shard_files(dict())
    return [v["msg"] for v in r.viols if v["case"].get("seq") == case.get("seq") and v["case"].get("fill") == case.get("fill")]
