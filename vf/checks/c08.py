"""C08 - generator (step-wise) solution == batch solution for every send
history (K2: BFS over send histories on the real generator objects)."""
import itertools

import numpy as np

from vf.core import Result
from vf.kernels import bfs, state_hash

PROP = "C08"
LEVEL = "model_checking"
RULE = (
    "explicit-state BFS: events = send(i,f) for 1<=i<=min(cur+1,nt-1), f in 2 force vectors, and send(-1,g) add-ons "
    "(g in 2 vectors) once a step exists; every history up to the depth bound is replayed on a fresh real generator; "
    "state = bytes of d, v, Force + generator frame locals (i, i_last, dmpfrc1); invariants per state: Force == model "
    "force history, columns 0..cur of d,v == batch tsolve of the force history in effect, finalize()==batch at "
    "cur=nt-1, get_f2x == effect of add-on (order 1).  Signature = solver kind/order/partition/mass/start + "
    "event-shape of the history (advance/redo/jump-back/add-on)"
)
ASSUMPTIONS = [
    "history depth and nt=4 bound; two force vectors and two add-on vectors per event",
    "batch tsolve of the same class is the reference (batch vs closed form is C01/C17)",
    "round-off tolerance 1e-11 relative to the solution scale (generator redo path and batch differ algebraically only)",
]
NT = 4
H = 0.05
TOL = 1e-11
KINDS = ["su_unc", "su_coupled", "su_cdf", "cdf_class", "se2_unc", "se2_coupled", "su_cplx_diag", "su_cplx_coupled", "su_nonsym", "se2_nonsym"]
PARTS = ["el", "rb+el", "el+rf", "rb+el+rf", "rf", "rb"]
STARTS = ["zero", "d0v0", "static"]


def bounds(tier):
    return {"quick": "nt=4, depth 5 sends, all kinds x order x partition x mass x start",
            "thorough": "nt=4, depth 7 sends, all kinds x order x partition x mass x start"}.get(tier, "")


def make_system(kind, part, mass):
    """returns dict(m,b,k,rb,rf,n) in the layout rb, el, rf (contiguous)"""
    nrb = {"el": 0, "rb+el": 1, "el+rf": 0, "rb+el+rf": 1, "rf": 0, "rb": 2}[part]
    nel = 0 if part in ("rf", "rb") else 2
    nrf = {"el": 0, "rb+el": 0, "el+rf": 1, "rb+el+rf": 1, "rf": 2, "rb": 0}[part]
    n = nrb + nel + nrf
    coupled = kind in ("su_coupled", "se2_coupled", "su_cplx_coupled", "su_nonsym", "se2_nonsym")
    cdf = kind in ("su_cdf", "cdf_class")
    md = np.array([2.0, 1.7][:nrb] + [1.0, 1.5][:nel] + [1.0, 1.0][:nrf])
    kd = np.array([0.0, 0.0][:nrb] + [30.0, 80.0][:nel] + [1.0e4, 3.0e4][:nrf])
    bd = np.array([0.0, 0.0][:nrb] + [0.6, 1.2][:nel] + [0.0, 0.0][:nrf])
    el = list(range(nrb, nrb + nel))
    rf = list(range(nrb + nel, n))
    if not coupled and not cdf:
        m, b, k = md, bd, kd
    else:
        m, b, k = np.diag(md), np.diag(bd), np.diag(kd)
        if cdf:
            # off-diagonal damping everywhere in the non-rf block (treated as force)
            nr = nrb + nel
            for i in range(nr):
                for j in range(nr):
                    if i != j:
                        b[i, j] = 0.07 * (1 + abs(i - j))
            m, k = md, kd
        else:
            if nel:
                i, j = el
                m[i, j] = m[j, i] = 0.1
                k[i, j] = k[j, i] = -5.0
                b[i, j] = b[j, i] = 0.1
            if nrf == 2:
                i, j = rf
                k[i, j] = k[j, i] = 2.0e3
            if nrb == 2:
                m[0, 1] = m[1, 0] = 0.2
            if kind.endswith("nonsym") and nel:
                # full NON-symmetric mass, damping and stiffness in the elastic block (legal for these solvers)
                i, j = el
                m[i, j], m[j, i] = 0.1, 0.3
                k[i, j], k[j, i] = -5.0, -9.0
                b[i, j], b[j, i] = 0.1, 0.02
    if kind.startswith("su_cplx"):
        # complex-valued system (structural damping K(1 + i*eta)): the complex-mode path with diagonal or full matrices
        k = k * (1 + 0.04j)
        if coupled:
            b = b * (1 + 0.0j)
    if mass == "none":
        m = None
    return dict(m=m, b=b, k=k, rf=rf if rf else None, n=n, nrb=nrb, nel=nel, nrf=nrf)


def make_solver(cfg):
    from pyyeti import ode

    s = make_system(cfg["kind"], cfg["part"], cfg["mass"])
    kw = dict(rf=s["rf"], order=cfg["order"])
    kind = cfg["kind"]
    if kind in ("su_unc", "su_coupled", "su_cplx_diag", "su_cplx_coupled", "su_nonsym"):
        ts = ode.SolveUnc(s["m"], s["b"], s["k"], H, **kw)
    elif kind == "su_cdf":
        ts = ode.SolveUnc(s["m"], s["b"], s["k"], H, cd_as_force=True, **kw)
    elif kind == "cdf_class":
        ts = ode.SolveCDF(s["m"], s["b"], s["k"], H, **kw)
    else:
        ts = ode.SolveExp2(s["m"], s["b"], s["k"], H, **kw)
    return ts, s


def vectors(n):
    base = np.array([1.0, -2.0, 0.5, 3.0, -1.5, 2.5])[:n]
    F0 = base * 10.0
    fA = np.array([4.0, 7.0, -3.0, 9.0, 1.0, -6.0])[:n]
    fB = np.array([-8.0, 2.0, 5.0, -4.0, 6.0, 3.0])[:n]
    gA = np.array([0.5, -1.0, 2.0, 1.5, -0.5, 1.0])[:n]
    gB = np.array([-2.0, 0.25, 1.0, -3.0, 2.0, -1.0])[:n]
    d0 = np.array([0.01, -0.02, 0.03, 0.015, -0.01, 0.02])[:n]
    v0 = np.array([0.1, 0.2, -0.3, 0.05, 0.15, -0.2])[:n]
    return F0, {"fA": fA, "fB": fB}, {"gA": gA, "gB": gB}, d0, v0


class World:
    """fresh real generator + the boring reference model (force history)"""

    def __init__(self, cfg):
        self.cfg = cfg
        self.ts, self.sys = make_solver(cfg)
        n = self.sys["n"]
        self.F0, self.fs, self.gs, d0, v0 = vectors(n)
        self.ic = {"zero": dict(), "d0v0": dict(d0=d0, v0=v0), "static": dict(static_ic=True)}[cfg["start"]]
        self.gen, self.d, self.v = self.ts.generator(NT, self.F0, **self.ic)
        self.model = np.zeros((n, NT))
        self.model[:, 0] = self.F0
        self.cur = 0
        self.msgs = []

    def apply(self, ev):
        kind, i, name = ev
        if getattr(self, "buf", None) is not None:
            return self.apply_buffered(ev)
        if kind == "send":
            f = self.fs[name] * (1.0 + 0.25 * i)
            self.gen.send((i, f.copy()))
            self.model[:, i] = f
            self.cur = i
        else:
            g = self.gs[name]
            dprev = self.d[:, self.cur].copy()
            vprev = self.v[:, self.cur].copy()
            self.gen.send((-1, g.copy()))
            self.model[:, self.cur] += g
            if self.cfg["order"] == 1 and not self.cfg["kind"].startswith("su_cplx"):  # get_f2x: real equations only (documented)
                I = np.eye(self.sys["n"])
                fd = self.ts.get_f2x(I, velo=False) @ g
                fv = self.ts.get_f2x(I, velo=True) @ g
                dd = self.d[:, self.cur] - dprev
                dv = self.v[:, self.cur] - vprev
                sc = max(1e-3, abs(self.d[:, self.cur]).max())
                sv = max(1e-3, abs(self.v[:, self.cur]).max())
                if abs(dd - fd).max() > 1e-8 * sc or abs(dv - fv).max() > 1e-8 * sv:
                    self.msgs.append("get_f2x does not equal the change an add-on produces in the current step: "
                                     "dd=%s f2x*g=%s dv=%s f2xv*g=%s" % (dd, fd, dv, fv))


class BufferedWorld(World):
    """the caller keeps ONE force buffer (and one add-on buffer) and overwrites it before every send - the usual way a
    simulation loop feeds the generator; F0 is handed over in the same buffer"""

    def __init__(self, cfg):
        self.cfg = cfg
        self.ts, self.sys = make_solver(cfg)
        n = self.sys["n"]
        self.F0, self.fs, self.gs, d0, v0 = vectors(n)
        self.ic = {"zero": dict(), "d0v0": dict(d0=d0, v0=v0), "static": dict(static_ic=True)}[cfg["start"]]
        self.buf = self.F0.copy()
        self.gbuf = np.zeros(n)
        self.gen, self.d, self.v = self.ts.generator(NT, self.buf, **self.ic)
        self.model = np.zeros((n, NT))
        self.model[:, 0] = self.F0
        self.cur = 0
        self.msgs = []

    def apply_buffered(self, ev):
        kind, i, name = ev
        if kind == "send":
            f = self.fs[name] * (1.0 + 0.25 * i)
            self.buf[:] = f
            self.gen.send((i, self.buf))
            self.buf[:] = -777.0  # the caller's buffer is the caller's: scribbling on it afterwards changes nothing
            self.model[:, i] = f
            self.cur = i
        else:
            self.gbuf[:] = self.gs[name]
            self.gen.send((-1, self.gbuf))
            self.gbuf[:] = 555.0
            self.model[:, self.cur] += self.gs[name]


class IntF0World(World):
    """the initial force handed to generator() as an integer-typed array (e.g. np.zeros(n, int)); later sends are floats"""

    def __init__(self, cfg, form):
        self.cfg = cfg
        self.ts, self.sys = make_solver(cfg)
        n = self.sys["n"]
        self.F0, self.fs, self.gs, d0, v0 = vectors(n)
        self.ic = {"zero": dict(), "d0v0": dict(d0=d0, v0=v0), "static": dict(static_ic=True)}[cfg["start"]]
        f0 = {"int64": self.F0.astype(np.int64), "int32": self.F0.astype(np.int32), "list": [float(x) for x in self.F0]}[form]
        self.gen, self.d, self.v = self.ts.generator(NT, f0, **self.ic)
        self.model = np.zeros((n, NT))
        self.model[:, 0] = self.F0
        self.cur = 0
        self.msgs = []


def check_f0_forms(cfg):
    """every history of REUSE_HISTS started from an integer-typed (or list) F0 holding the same values"""
    msgs = []
    for form in ("int64", "int32", "list"):
        for hi, hist in enumerate(REUSE_HISTS):
            a = World(cfg)
            try:
                b = IntF0World(cfg, form)
            except Exception as e:  # noqa
                if form == "list":
                    break  # F0 is documented as an ndarray: a list is outside the documented domain if refused loudly
                msgs.append(((form, hi), "generator(nt, F0) raised %r for F0 given as %s" % (e, form)))
                break
            try:
                for step, ev in enumerate(hist):
                    a.apply(ev)
                    b.apply(ev)
                    c = a.cur
                    if not (np.array_equal(a.d[:, : c + 1], b.d[:, : c + 1]) and np.array_equal(a.v[:, : c + 1], b.v[:, : c + 1]) and np.array_equal(a.ts._force, b.ts._force)
                            and b.ts._force.dtype == a.ts._force.dtype):
                        msgs.append(((form, hi), "history #%d, event %d %s: starting the generator from F0 given as %s gives a different state / force history than the same values as float64"
                                     % (hi, step + 1, list(ev), form)))
                        break
            except Exception as e:  # noqa
                msgs.append(((form, hi), "history #%d with F0 given as %s raised %r" % (hi, form, e)))
    return msgs


def check_buffer(cfg):
    """every history of REUSE_HISTS fed through one reused caller-side buffer: after every event d, v and the stored force
    history are bit-identical to the run that hands over fresh arrays"""
    msgs = []
    for hi, hist in enumerate(REUSE_HISTS):
        a, b = World(cfg), BufferedWorld(cfg)
        for step, ev in enumerate(hist):
            a.apply(ev)
            b.apply(ev)
            c = a.cur
            if not (np.array_equal(a.d[:, : c + 1], b.d[:, : c + 1]) and np.array_equal(a.v[:, : c + 1], b.v[:, : c + 1]) and np.array_equal(a.ts._force, b.ts._force)):
                msgs.append((hi, "history #%d, event %d %s: feeding the generator from one reused force buffer gives a different state than handing over fresh arrays "
                             "(the generator keeps a reference to the caller's array)" % (hi, step + 1, list(ev))))
                break
    return msgs


def build(cfg, hist):
    w = World(cfg)
    for ev in hist:
        w.apply(tuple(ev))
    return w


def enabled(hist):
    cur = 0
    for ev in hist:
        if ev[0] == "send":
            cur = ev[1]
    evs = []
    for i in range(1, min(cur + 1, NT - 1) + 1):
        for name in ("fA", "fB"):
            evs.append(("send", i, name))
    if cur >= 1:
        for name in ("gA", "gB"):
            evs.append(("addon", -1, name))
    return evs


def canon(w):
    loc = w.gen.gi_frame.f_locals if w.gen.gi_frame is not None else {}
    hidden = []
    for key in ("i", "i_last"):
        hidden.append((key, loc.get(key)))
    d1 = loc.get("dmpfrc1")
    return state_hash([w.d, w.v, w.ts._force, repr(hidden), b"" if d1 is None else np.asarray(d1), w.cur])


_BATCH = {}


def check(w, hist):
    msgs = list(w.msgs)
    ts = w.ts
    cur = w.cur
    if not np.array_equal(ts._force, w.model):
        msgs.append("Force array != force history in effect: %s vs %s" % (ts._force.tolist(), w.model.tolist()))
    # batch reference on a second, fresh solver object
    ts2, _ = make_solver(w.cfg)
    sol = ts2.tsolve(w.model[:, : cur + 1].copy(), **w.ic)
    sd = max(1e-6, abs(sol.d).max())
    sv = max(1e-6, abs(sol.v).max(), sd)
    ed = abs(w.d[:, : cur + 1] - sol.d).max() / sd
    ev = abs(w.v[:, : cur + 1] - sol.v).max() / sv
    w.err = max(ed, ev)
    if not (ed <= TOL and ev <= TOL):
        msgs.append("after history, columns 0..%d of d/v differ from batch tsolve: rel err d=%.3g v=%.3g" % (cur, ed, ev))
    if cur == NT - 1:
        fin = ts.finalize(get_force=True)
        sa = max(1e-6, abs(sol.a).max())
        e = max(abs(fin.d - sol.d).max() / sd, abs(fin.v - sol.v).max() / sv, abs(fin.a - sol.a).max() / sa)
        w.err = max(w.err, e)
        if not e <= TOL:
            msgs.append("finalize() differs from batch tsolve: rel err %.3g" % e)
        if not np.array_equal(fin.force, w.model):
            msgs.append("finalize().force != force history in effect")
        if not (fin.t.shape == sol.t.shape and np.array_equal(fin.t, sol.t) and fin.h == sol.h):
            msgs.append("finalize() time vector differs from batch")
    return msgs


REUSE_HISTS = [
    [("send", 1, "fA"), ("send", 2, "fB"), ("send", 3, "fA")],
    [("send", 1, "fB"), ("send", 2, "fA"), ("send", 1, "fA"), ("send", 2, "fB"), ("addon", -1, "gA"), ("send", 3, "fB")],
    [("send", 1, "fA"), ("addon", -1, "gB"), ("send", 1, "fB"), ("send", 2, "fA"), ("send", 3, "fA"), ("send", 3, "fB")],
]


def check_reuse(cfg):
    """one solver object used for several generator runs and batch solves in sequence (every ordered pair of three
    complete histories, with a batch tsolve in between): each run must equal the same run on a fresh solver object,
    and the arrays returned by the earlier run must not change"""
    msgs = []
    fresh = []
    for h in REUSE_HISTS:
        w = build(cfg, h)
        fin = w.ts.finalize(get_force=True)
        fresh.append([np.array(x) for x in (fin.d, fin.v, fin.a, fin.force)])
    for a, b in itertools.product(range(len(REUSE_HISTS)), repeat=2):
        w = build(cfg, REUSE_HISTS[a])
        fin1 = w.ts.finalize(get_force=True)
        keep = [np.array(x) for x in (fin1.d, fin1.v, fin1.a, fin1.force)]
        ts = w.ts
        sol = ts.tsolve(w.model.copy() * 0.5, **w.ic)  # a batch solve in between
        # second generator run on the same solver object
        w2 = World.__new__(World)
        w2.cfg, w2.ts, w2.sys = cfg, ts, w.sys
        n = w.sys["n"]
        w2.F0, w2.fs, w2.gs, d0, v0 = vectors(n)
        w2.ic = w.ic
        w2.gen, w2.d, w2.v = ts.generator(NT, w2.F0, **w2.ic)
        w2.model = np.zeros((n, NT))
        w2.model[:, 0] = w2.F0
        w2.cur = 0
        w2.msgs = []
        for ev in REUSE_HISTS[b]:
            w2.apply(tuple(ev))
        fin2 = ts.finalize(get_force=True)
        for nm, x, y in zip(("d", "v", "a", "force"), (fin2.d, fin2.v, fin2.a, fin2.force), fresh[b]):
            sc = max(1e-6, abs(y).max())
            if x.shape != y.shape or abs(x - y).max() > TOL * sc:
                msgs.append(([a, b], "second generator run on a used solver object: %s differs from the same run on a fresh object (rel %.3g)" % (nm, abs(x - y).max() / sc if x.shape == y.shape else float("nan"))))
                break
        for nm, x, y in zip(("d", "v", "a", "force"), (fin1.d, fin1.v, fin1.a, fin1.force), keep):
            if not np.array_equal(x, y):
                msgs.append(([a, b], "the solution returned by finalize() of an earlier run (%s) was modified by later use of the solver object" % nm))
                break
    return msgs


def check_interleaved(cfg):
    """two generators of ONE solver object alive at the same time, their send histories interleaved in every
    merge order of two short histories: the d/v arrays of each generator must equal the batch solution of its
    own force history (finalize() belongs to the generator created last and is not used here)"""
    msgs = []
    hA = [("send", 1, "fA"), ("send", 2, "fB"), ("send", 1, "fB"), ("send", 2, "fA")]
    hB = [("send", 1, "fB"), ("addon", -1, "gA"), ("send", 2, "fB")]
    merges = []
    for pos in itertools.combinations(range(len(hA) + len(hB)), len(hA)):
        merges.append(["A" if i in pos else "B" for i in range(len(hA) + len(hB))])
    for merge in merges[:: max(1, len(merges) // 12)]:
        w1 = World(cfg)
        w2 = World.__new__(World)
        w2.cfg, w2.ts, w2.sys = cfg, w1.ts, w1.sys
        n = w1.sys["n"]
        w2.F0, w2.fs, w2.gs, _, _ = vectors(n)
        w2.F0 = w2.F0 * -0.5
        w2.ic = w1.ic
        w2.gen, w2.d, w2.v = w1.ts.generator(NT, w2.F0, **w2.ic)
        w2.model = np.zeros((n, NT))
        w2.model[:, 0] = w2.F0
        w2.cur = 0
        w2.msgs = []
        ia = ib = 0
        for who in merge:
            if who == "A":
                ev = hA[ia]
                ia += 1
                w = w1
            else:
                ev = hB[ib]
                ib += 1
                w = w2
            if ev[0] == "addon":
                # add-on via the generator only (get_f2x bookkeeping is checked elsewhere)
                w.gen.send((-1, w.gs[ev[2]].copy()))
                w.model[:, w.cur] += w.gs[ev[2]]
            else:
                w.apply(ev)
        for nm, w in (("first", w1), ("second", w2)):
            ts2, _ = make_solver(cfg)
            sol = ts2.tsolve(w.model[:, : w.cur + 1].copy(), **w.ic)
            sd = max(1e-6, abs(sol.d).max())
            sv = max(1e-6, abs(sol.v).max(), sd)
            e = max(abs(w.d[:, : w.cur + 1] - sol.d).max() / sd, abs(w.v[:, : w.cur + 1] - sol.v).max() / sv)
            if not e <= TOL:
                msgs.append(("".join(merge), "two generators of one solver object with interleaved sends (%s): the %s generator's d/v differ from the batch solution of its own force history (rel err %.3g)" % ("".join(merge), nm, e)))
                break
    return msgs


def shape_of(hist):
    """event-shape signature of a history: advance / redo / jump-back / add-on pattern"""
    out = []
    cur = 0
    for ev in hist:
        if ev[0] == "addon":
            out.append("+")
        else:
            i = ev[1]
            out.append("a" if i == cur + 1 else ("r" if i == cur else "j"))
            cur = i
    return "".join(out)


def configs():
    out = []
    for kind, order, part, mass, start in itertools.product(KINDS, (0, 1), PARTS, ("none", "given"), STARTS):
        if kind.endswith("nonsym") and (part not in ("el", "rb+el+rf") or mass == "none"):
            continue
        out.append(dict(kind=kind, order=order, part=part, mass=mass, start=start))
    return out


def shards(tier, seed):
    depth = 5 if tier == "quick" else 7
    cfgs = configs()
    r = seed % len(cfgs)
    cfgs = cfgs[r:] + cfgs[:r]
    return [dict(cfg=c, depth=depth, seed=seed) for c in cfgs]


def run_shard(sh):
    cfg = sh["cfg"]
    res = Result()
    tag = "%s/o%d/%s/m-%s/%s" % (cfg["kind"], cfg["order"], cfg["part"], cfg["mass"], cfg["start"])
    try:
        build(cfg, [])
    except NotImplementedError as e:
        res.exit("NotImplementedError:" + str(e)[:60])
        return res
    shapes = set()

    def chk(w, hist):
        msgs = check(w, hist)
        res.err("gen_vs_batch_rel", getattr(w, "err", 0.0))
        sh_ = shape_of(hist)
        shapes.add(sh_)
        res.ev("%s/%s" % (cfg["kind"], sh_), outcome=None)
        return msgs

    def case_of(hist):
        return {"cfg": cfg, "hist": [list(e) for e in hist]}

    st = bfs(lambda h: build(cfg, h), enabled, chk, canon, sh["depth"], res, case_of)
    for pair, m in check_reuse(cfg):
        res.viol({"cfg": cfg, "reuse": pair}, m, kind="reuse")
    res.ev("%s/solver-reuse" % cfg["kind"], n=0)
    for hi, m in check_buffer(cfg):
        res.viol({"cfg": cfg, "buffer": hi}, m, kind="buffer")
    res.ev("%s/reused-force-buffer" % cfg["kind"], n=0)
    for key, m in check_f0_forms(cfg):
        res.viol({"cfg": cfg, "f0form": list(key)}, m, kind="f0form")
    res.ev("%s/F0-forms" % cfg["kind"], n=0)
    if cfg["part"] not in ("rf", "rb"):
        for merge, m in check_interleaved(cfg):
            res.viol({"cfg": cfg, "interleaved": merge}, m, kind="interleaved")
        res.ev("%s/interleaved-generators" % cfg["kind"], n=0)
    res.counters["configs"] += 1
    res.counters["max_depth_%d" % st["max_depth"]] += 1
    res.sigs["cfg/" + tag] += 1
    pick = sorted(shapes)[(sh["seed"] * 31 + 7) % len(shapes)] if shapes else ""
    res.sample({"cfg": cfg, "states": st["states"], "transitions": st["transitions"], "a_history_shape": pick})
    return res


def replay(case):
    if "interleaved" in case:
        return [m for merge, m in check_interleaved(case["cfg"]) if merge == case["interleaved"]]
    if "f0form" in case:
        return [m for key, m in check_f0_forms(case["cfg"]) if list(key) == list(case["f0form"])]
    if "buffer" in case:
        return [m for hi, m in check_buffer(case["cfg"]) if hi == case["buffer"]]
    if "reuse" in case:
        return [m for pair, m in check_reuse(case["cfg"]) if pair == case["reuse"]]
    w = build(case["cfg"], case["hist"])
    return check(w, case["hist"])
