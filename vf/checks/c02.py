"""C02 - frequency-domain solvers satisfy the dynamic-stiffness equation;
incrb / rf_disp_only semantics; SolveUnc == FreqDirect; solvepsd == sum of
PSD_i |H_i|^2 with trapezoidal RMS.  K1 grid, oracles R5 + R3 + R2."""
import itertools
import math
import warnings

import numpy as np

from vf.core import Result
from vf.checks import c01

PROP = "C02"
LEVEL = "model_checking"
RULE = (
    "full product of systems (diagonal modal systems over the C01 regime alphabet incl. rigid-body and residual-"
    "flexibility modes in every ordering; coupled 2-3 DOF systems, proportional / non-proportional / complex stiffness "
    "and damping; partitioned modal-coupled systems) x frequency vectors {[0],[0,f],[.13,1.1,10.3],[exact damped resonance]} x "
    "complex force matrices x all 8 incrb subsets (+ permuted spelling, + deprecated integers) x rf_disp_only x pre_eig x "
    "solver {SolveUnc,FreqDirect}; oracle: extended-precision reference solution of (-W^2 M + iWB + K) d = F per "
    "frequency with conditioning-graded tolerance, v=iWd, a=-W^2 d, rb/rf rows zeroed exactly as the options say, solver "
    "agreement; solvepsd against an independent double loop over all 16 drm None-patterns x rbduf/elduf"
)
ASSUMPTIONS = [
    "tolerance per element = 200*eps*(|k|+W^2|m|+W|b|)/|H| for diagonal systems, 1e4*eps*cond(H)*cond(eigvec) for the "
    "complex-mode path; FreqDirect at 0 Hz with rigid-body modes is a documented domain exit (singular)",
    "alphabet values only; matrix sizes <= 4",
]
EPS = 2.220446049250313e-16
INCRB = ["", "d", "v", "a", "dv", "da", "va", "dva", "avd", 0, 1, 2]
INT_EQ = {0: "", 1: "va", 2: "dva"}


def bounds(tier):
    return {"quick": "regimes at w in {2*pi*1, 2*pi*7}; 4 frequency vectors; all incrb forms",
            "thorough": "full regime alphabet, 3 natural frequencies, all incrb forms, complex variants"}.get(tier, "")


def freq_sets(fn_list, has_rb=True):
    out = {"zero": np.array([0.0]), "zero+f": np.array([0.0, 3.3]), "three": np.array([0.13, 1.1, 10.3])}
    if has_rb:
        # 0 Hz anywhere in the vector, and more than once (rigid-body d, v are zeroed at exactly those columns)
        out["zero-mid"] = np.array([1.1, 0.0, 3.3])
        out["zero-twice"] = np.array([0.0, 2.0, 0.0])
    if fn_list:
        out["resonance"] = np.array(sorted(set(fn_list)))
    # frequencies in any order, with a repeated value (nothing in the documentation asks for a sorted vector)
    out["unsorted"] = np.array([10.3, 0.13, 1.1, 1.1])
    return out


def forces(n, nf):
    base = (np.array([[1.0, -2.0, 0.5, 3.0], [0.5, 1.5, -1.0, 2.0], [-2.0, 1.0, 1.0, -0.5], [3.0, -1.0, 2.0, 0.5], [0.7, 2.2, -1.1, -3.0],
                      [-1.3, 0.6, 2.4, 1.0]])[:n, :nf]
            + 1j * np.array([[0.3, 1.0, -0.7, 0.0], [-1.0, 0.2, 0.4, 1.1], [0.0, -0.6, 2.0, 0.9], [1.2, 0.0, -0.3, 0.8], [0.4, -0.9, 0.6, 0.0],
                             [-0.2, 0.5, 1.0, -1.4]])[:n, :nf])
    unit = np.zeros((n, nf), complex)
    unit[0, :] = 1.0
    return {"dense": base, "unit0": unit}


def incrb_set(x):
    return set(INT_EQ[x]) if not isinstance(x, str) else set(x)


def reference(M, B, K, rb, el, rf, F, freq, incrb, rf_disp_only, solver):
    """expected d, v, a and a per-element tolerance, from the statement's mathematics"""
    n = K.shape[0]
    nf = len(freq)
    cl = np.clongdouble
    W = (2 * np.pi * freq).astype(np.longdouble)
    d = np.zeros((n, nf), cl)
    v = np.zeros((n, nf), cl)
    a = np.zeros((n, nf), cl)
    tol = np.full((n, nf), 200 * EPS)
    inc = incrb_set(incrb)
    dyn = sorted(rb + el)
    Ml, Bl, Kl, Fl = (X.astype(cl) for X in (M, B, K, F))
    for j in range(nf):
        w = W[j]
        if el or (rb and w != 0):
            idx = dyn if w != 0 else el
            if idx:
                ix = np.ix_(idx, idx)
                H = -w * w * Ml[ix] + 1j * w * Bl[ix] + Kl[ix]
                Hd = H.astype(complex)
                x = np.linalg.solve(Hd, Fl[idx, j].astype(complex)).astype(cl)
                # two steps of iterative refinement in extended precision
                for _ in range(3):
                    r = Fl[idx, j] - H @ x
                    x = x + np.linalg.solve(Hd, r.astype(complex)).astype(cl)
                d[idx, j] = x
                c = np.linalg.cond(Hd)
                absH = np.abs(w * w * Ml[ix]) + np.abs(w * Bl[ix]) + np.abs(Kl[ix])
                if np.count_nonzero(Hd - np.diag(np.diag(Hd))) == 0:
                    tol[idx, j] = 200 * EPS * (np.diag(absH).astype(float) / np.maximum(np.abs(np.diag(Hd)), 1e-300))
                else:
                    tol[idx, j] = 1e3 * EPS * c
        v[:, j] = 1j * w * d[:, j]
        a[:, j] = -w * w * d[:, j]
        if rb and w == 0:
            # documented: rb velocity/displacement undefined at 0 Hz -> zero; acceleration = F/m
            ix = np.ix_(rb, rb)
            d[rb, j] = 0
            v[rb, j] = 0
            a[rb, j] = np.linalg.solve(M[ix].astype(complex), F[rb, j])
    if rb:
        if "d" not in inc:
            d[rb] = 0
        if "v" not in inc:
            v[rb] = 0
        if "a" not in inc:
            a[rb] = 0
    if rf:
        ix = np.ix_(rf, rf)
        drf = np.linalg.solve(K[ix].astype(complex), F[rf])
        d[rf] = drf
        tol[rf] = 50 * EPS * np.linalg.cond(K[ix])
        if rf_disp_only:
            v[rf] = 0
            a[rf] = 0
        else:
            v[rf] = drf * (1j * W)[None, :]
            a[rf] = drf * (-(W * W))[None, :]
    return d.astype(complex), v.astype(complex), a.astype(complex), tol


def compare(sol, ref, freq, tag, msgs, res, extra_tol=1.0):
    d, v, a, tol = ref
    W = 2 * np.pi * freq
    for nm, x, xr, fac in (("d", sol.d, d, 1.0), ("v", sol.v, v, 1.0), ("a", sol.a, a, 1.0)):
        if x.shape != xr.shape:
            msgs.append("%s: %s has shape %s, expected %s" % (tag, nm, x.shape, xr.shape))
            return
        # element scale: own magnitude, floored by the row's largest response at that frequency's scale
        sc = np.maximum(np.abs(xr), 1e-300)
        colmax = np.abs(xr).max(axis=0, keepdims=True)
        sc = np.maximum(sc, 1e-3 * colmax)
        e = np.abs(x - xr) / sc
        zero = (xr == 0) & (x == 0)
        e[zero] = 0
        exact_zero_expected = (xr == 0) & (x != 0)
        if exact_zero_expected.any():
            i, j = np.argwhere(exact_zero_expected)[0]
            msgs.append("%s: %s[%d] at %.4g Hz must be exactly zero, got %s" % (tag, nm, i, freq[j], x[i, j]))
            continue
        ratio = e / (tol * extra_tol)
        res.err("ratio/" + tag.split("/")[0], float(np.nanmax(ratio)) if ratio.size else 0.0)
        bad = np.argwhere(~(ratio <= 1.0))
        if bad.size:
            i, j = bad[0]
            msgs.append("%s: %s[%d] at %.4g Hz does not solve the dynamic-stiffness equation: rel err %.3g > tol %.3g"
                        % (tag, nm, i, freq[j], e[i, j], tol[i, j] * extra_tol))


# ------------------------------------------------------------------ one system, all options
def run_system(sysd, tier, res, fsets=None):
    """sysd: dict(M,B,K (2-D), rb, el, rf, form: how matrices are handed to pyYeti, name)"""
    from pyyeti import ode

    out = []  # (case-extra, msg)
    M, B, K = sysd["M"], sysd["B"], sysd["K"]
    rb, el, rf = sysd["rb"], sysd["el"], sysd["rf"]
    n = K.shape[0]
    diag = sysd["diag"]
    args = (np.diag(M).copy(), np.diag(B).copy(), np.diag(K).copy()) if diag else (M, B, K)
    fsets = fsets or freq_sets(sysd.get("fn", []), bool(rb))
    rfarg = rf if rf else None
    coupled_eig = not diag
    condv = sysd.get("condv", 1.0)
    for fsname, freq in fsets.items():
        nf = len(freq)
        for fname, F in forces(n, nf).items():
            for incrb, rdo in itertools.product(INCRB, (False, True)):
                if rdo and not rf:
                    continue
                if fname == "unit0" and (incrb not in ("dva", "") or rdo):
                    continue
                refs = {}
                for solver in ("SolveUnc", "FreqDirect", "SolveUnc(h)", "SolveUnc(rfrev)", "FreqDirect(rfrev)"):
                    if "rfrev" in solver and len(rf) < 2:
                        continue
                    if solver != "SolveUnc" and solver != "FreqDirect" and (incrb not in ("dva", "", "a") or fname != "dense"):
                        continue
                    case = dict(fset=fsname, force=fname, incrb=incrb, rf_disp_only=rdo, solver=solver)
                    tag = "%s/%s" % (solver, sysd["name"])
                    if solver.startswith("FreqDirect") and rb and (freq == 0).any():
                        res.exit("FreqDirect at 0 Hz with rigid-body modes (documented singular)")
                        continue
                    try:
                        with warnings.catch_warnings():
                            warnings.simplefilter("ignore")
                            if solver == "SolveUnc":
                                ts = ode.SolveUnc(*args, rf=rfarg)
                            elif solver == "SolveUnc(h)":  # the same object also serves time-domain solves
                                ts = ode.SolveUnc(*args, h=0.01, rf=rfarg)
                            elif solver == "SolveUnc(rfrev)":  # partition given as an unsorted index vector
                                ts = ode.SolveUnc(*args, rf=rf[::-1])
                            elif solver == "FreqDirect(rfrev)":
                                ts = ode.FreqDirect(*args, rf=rf[::-1])
                            else:
                                ts = ode.FreqDirect(*args, rf=rfarg)
                            sol = ts.fsolve(F.copy(), freq.copy(), incrb=incrb, rf_disp_only=rdo)
                            if incrb in ("dva", "a", 1):
                                # solver objects are reusable: a different solve in between must not change the answer
                                ts.fsolve(F[:, ::-1].copy() * 2.0, freq[::-1].copy() + 0.37, incrb="v", rf_disp_only=not rdo)
                                again = ts.fsolve(F.copy(), freq.copy(), incrb=incrb, rf_disp_only=rdo)
                                if not all(np.array_equal(getattr(again, nm), getattr(sol, nm)) for nm in "dva"):
                                    out.append((case, "%s: solving again on the same instance (after a different fsolve) gives a different answer" % tag))
                            if incrb == "dva" and solver in ("SolveUnc", "FreqDirect") and fname == "dense":
                                # ONE frequency array object changed in place between calls on one solver object
                                fq = freq.copy()
                                ts.fsolve(F.copy(), fq, incrb=incrb, rf_disp_only=rdo)
                                for step, mut in enumerate((lambda x: x.__imul__(1.5), lambda x: x.__iadd__(0.21), lambda x: x.__setitem__(slice(None), freq))):
                                    mut(fq)
                                    got = ts.fsolve(F.copy(), fq, incrb=incrb, rf_disp_only=rdo)
                                    tsf = ode.SolveUnc(*args, rf=rfarg) if solver == "SolveUnc" else ode.FreqDirect(*args, rf=rfarg)
                                    if solver == "FreqDirect" and rb and (fq == 0).any():
                                        break
                                    want = tsf.fsolve(F.copy(), fq.copy(), incrb=incrb, rf_disp_only=rdo)
                                    if not all(np.array_equal(getattr(got, nm), getattr(want, nm)) for nm in "dva"):
                                        out.append((case, "%s: after the caller changed its frequency array in place (step %d) fsolve on the same solver object differs from a fresh solver with the same values" % (tag, step + 1)))
                                        break
                            if incrb == "dva" and solver in ("SolveUnc", "FreqDirect"):
                                # inputs are never modified, whatever their memory layout / dtype
                                for lay, Fx in (("F-order complex", np.asfortranarray(F.astype(complex))), ("F-order real", np.asfortranarray(F.real.copy())),
                                                ("C-order real", np.ascontiguousarray(F.real.copy()))):
                                    snap, fsnap = Fx.copy(), freq.copy()
                                    fq = freq.copy()
                                    solx = ts.fsolve(Fx, fq, incrb=incrb, rf_disp_only=rdo)
                                    if not (np.array_equal(Fx, snap) and np.array_equal(fq, fsnap)):
                                        out.append((case, "%s: fsolve modified the caller's force/frequency array (%s input)" % (tag, lay)))
                                    elif lay == "F-order complex" and not all(np.allclose(getattr(solx, nm), getattr(sol, nm), rtol=1e-12, atol=1e-300) for nm in "dva"):
                                        out.append((case, "%s: a Fortran-ordered force matrix gives a different answer than the C-ordered one" % tag))
                            if solver == "SolveUnc(h)" and incrb == "dva" and not rdo:
                                m_ = _call_history(ode, args, rfarg, F, freq, n)
                                if m_:
                                    out.append((case, "%s: %s" % (tag, m_)))
                    except Exception as e:  # noqa
                        out.append((case, "%s: fsolve raised %r" % (tag, e)))
                        continue
                    ref = reference(M, B, K, rb, el, rf, F, freq, incrb, rdo, solver)
                    msgs = []
                    xt = condv * 50 if (solver.startswith("SolveUnc") and coupled_eig) else 1.0
                    compare(sol, ref, freq, tag, msgs, res, extra_tol=xt)
                    if not np.array_equal(sol.f, freq):
                        msgs.append("%s: returned frequency vector differs" % tag)
                    for m in msgs:
                        out.append((case, m))
                    refs[solver] = sol
                res.ev("%s/%s/%s/incrb-%s/rdo%d" % (sysd["name"], fsname, fname, incrb, rdo))
    return out


def _call_history(ode, args, rfarg, F, freq, n):
    """K2 on one SolveUnc(h) object: EVERY sequence of up to 3 calls over {fsolve(F), tsolve(Ft), fsolve(F2)};
    each result must equal the same call on a fresh object"""
    Ft = np.cos(np.arange(n)[:, None] * 0.7 + np.arange(6)[None, :] * 0.9)
    F2 = F[:, ::-1].copy() * (0.5 + 0.25j)
    f2 = freq[::-1].copy() + 0.21
    events = {
        "fsolve(F)": lambda ts: ts.fsolve(F.copy(), freq.copy()),
        "tsolve": lambda ts: ts.tsolve(Ft.copy()),
        "fsolve(F2)": lambda ts: ts.fsolve(F2.copy(), f2.copy()),
    }
    mk = lambda: ode.SolveUnc(*args, h=0.01, rf=rfarg)
    fresh = {}
    for k, ev in events.items():
        sol = ev(mk())
        fresh[k] = [np.array(getattr(sol, nm)) for nm in "dva"]
    names = list(events)
    for L in (2, 3):
        for seq in itertools.product(names, repeat=L):
            ts = mk()
            for step, k in enumerate(seq):
                sol = events[k](ts)
                if not all(np.array_equal(getattr(sol, nm), w) for nm, w in zip("dva", fresh[k])):
                    return "call %d of the history %s on one solver object (%s) differs from the same call on a fresh object" % (step + 1, list(seq), k)
    return None


def modal_to_sys(modes, name):
    m = np.array([md["m"] for md in modes])
    b = np.array([md["b"] for md in modes])
    k = np.array([md["k"] for md in modes])
    return dict(M=np.diag(m), B=np.diag(b), K=np.diag(k), diag=True, name=name,
                rb=[i for i, md in enumerate(modes) if md["kind"] == "rb"],
                el=[i for i, md in enumerate(modes) if md["kind"] == "el"],
                rf=[i for i, md in enumerate(modes) if md["kind"] == "rf"],
                fn=[md["w"] / 2 / np.pi for md in modes if md["kind"] == "el" and md["zeta"] > 0])  # undamped resonance is singular


def systems(tier):
    out = []
    H = c01.H
    whs = [2 * np.pi * 1.0 * H, 2 * np.pi * 7.0 * H] if tier == "quick" else [2 * np.pi * 0.3 * H, 2 * np.pi * 1.0 * H, 2 * np.pi * 7.0 * H]
    Z = c01.zetas(tier)
    for wh in whs:
        for nm, z in Z:
            out.append(modal_to_sys([c01.el_mode(nm, wh, z, 2.0)], "el-" + nm))
    out.append(modal_to_sys([c01.rb_mode("rb0", 0.0, 2.0)], "rb0"))
    base4 = [c01.rb_mode("rb0", 0.0, 2.0), c01.el_mode("u.01", whs[0], 0.01, 1.0), c01.el_mode("o1.5", whs[-1], 1.5, 0.5), c01.rf_mode(2.0)]
    for perm in itertools.permutations(range(4)):
        out.append(modal_to_sys([base4[i] for i in perm], "perm-" + "".join(base4[i]["kind"][1] for i in perm)))
    out.append(modal_to_sys([c01.rb_mode("rb0", 0.0, 1.0), c01.rb_mode("rb0", 0.0, 3.0), c01.rf_mode(1.0)], "rb+rb+rf"))
    out.append(modal_to_sys([c01.rf_mode(1.0), c01.rf_mode(2.0)], "rf+rf"))
    rfb, rfc = dict(c01.rf_mode(2.0), k=9.0e5), dict(c01.rf_mode(1.0), k=2.5e6)
    out.append(modal_to_sys([c01.el_mode("u.5", whs[0], 0.5, 1.0), c01.rf_mode(1.0), rfb, rfc], "el+rf3"))
    out.append(modal_to_sys([rfc, c01.rf_mode(1.0), rfb, c01.el_mode("o1.5", whs[-1], 1.5, 2.0), c01.rb_mode("rb0", 0.0, 2.0)], "rf3+el+rb"))
    # rigid-body modes that are not contiguous (index-vector partitions), and complex diagonal coefficients with rb / rf modes
    nc = [c01.rb_mode("rb0", 0.0, 2.0), c01.el_mode("u.01", whs[0], 0.01, 1.0), c01.rb_mode("rb0", 0.0, 3.0), c01.rf_mode(1.0), c01.el_mode("o1.5", whs[-1], 1.5, 0.5)]
    out.append(modal_to_sys(nc, "rb-el-rb-rf-el"))
    out.append(modal_to_sys([nc[1], nc[0], nc[4], nc[2]], "el-rb-el-rb"))
    for which in "MBK":
        for nm_, lst in (("rb-el-rb-rf-el", nc), ("rb-rb-el", [nc[0], nc[2], nc[4]]), ("el-rf-rb", [nc[1], nc[3], nc[0]])):
            sd = modal_to_sys(lst, "cplx%s-%s" % (which, nm_))
            sd[which] = sd[which] * (1 + 0.03j)
            out.append(sd)
    # damped rigid-body mode (see known findings)
    out.append(modal_to_sys([c01.rb_mode("rb.5", 0.5, 2.0), c01.el_mode("u.5", whs[0], 0.5, 1.0)], "rbdamped+el"))
    # coupled physical-space systems (complex-mode path), real and complex coefficients
    zs = [("u.01", 0.01), ("u.5", 0.5), ("o1.5", 1.5)] if tier == "quick" else [("u0", 0.0), ("u.01", 0.01), ("u.5", 0.5), ("crit", 1.0), ("o1.5", 1.5), ("o20", 20.0)]
    for (n1, z1), (n2, z2) in itertools.product(zs, zs):
        for ti in (0, 1):
            for variant in ("prop", "nonprop", "cplxK", "cplxB", "cplxM", "gyro"):
                modes = [c01.el_mode(n1, whs[0], z1, 1.0), c01.el_mode(n2, whs[-1] * 1.3, z2, 1.0)]
                T = c01.TRANS[2][ti]
                M = T.T @ np.diag([1.0, 1.0]) @ T
                B = T.T @ np.diag([md["b"] for md in modes]) @ T
                K = T.T @ np.diag([md["k"] for md in modes]) @ T
                if variant == "nonprop":
                    B = B + np.array([[0.3, -0.1], [-0.1, 0.2]]) * max(1.0, np.abs(B).max()) * 0.2
                M, B, K = (0.5 * (X + X.T) for X in (M, B, K))
                if variant == "gyro":  # symmetric m, k with a NON-symmetric damping matrix (gyroscopic / aerodynamic terms)
                    g = 0.3 * max(1.0, np.abs(B).max())
                    B = B + np.array([[0.0, g], [-g, 0.0]])
                if variant == "cplxK":
                    K = K * (1 + 0.04j)
                if variant == "cplxB":
                    B = B * (1 + 0.1j)
                if variant == "cplxM":  # complex mass with real damping and stiffness
                    M = M * (1 + 0.03j)
                A = np.zeros((4, 4), complex)
                A[:2, :2] = -np.linalg.solve(M, B)
                A[:2, 2:] = -np.linalg.solve(M, K)
                A[2:, :2] = np.eye(2)
                lam, ur = np.linalg.eig(A)
                defective = min(abs(lam[i] - lam[j]) for i in range(4) for j in range(i)) < 1e-6 * np.abs(lam).max()
                if defective:
                    continue
                out.append(dict(M=M, B=B, K=K, diag=False, rb=[], el=[0, 1], rf=[], name="c2-%s-%s-%s-T%d" % (n1, n2, variant, ti),
                                fn=[md["w"] / 2 / np.pi for md in modes if md["zeta"] > 0], condv=np.linalg.cond(ur)))
    # partitioned modal-coupled systems (rb | coupled el block | rf), every ordering
    for sd in c01.mc_systems("quick"):
        kind, z1, z2, wh, perm = sd
        if kind != "mcA":
            continue
        M, B, K, rb, rf, el = c01.mc_build(kind, z1, z2, wh, perm)
        ix = np.ix_(el, el)
        A = np.zeros((4, 4))
        A[:2, :2] = -np.linalg.solve(M[ix], B[ix])
        A[:2, 2:] = -np.linalg.solve(M[ix], K[ix])
        A[2:, :2] = np.eye(2)
        lam, ur = np.linalg.eig(A)
        out.append(dict(M=M, B=B, K=K, diag=False, rb=rb, el=el, rf=rf, name="mcA-z%g-%g-p%s" % (z1, z2, "".join(map(str, perm))),
                        fn=[abs(l.imag) / 2 / np.pi for l in lam if l.imag > 0], condv=np.linalg.cond(ur)))
    return out


# ------------------------------------------------------------------ pre_eig + solvepsd
def run_pre_eig(tier, res):
    from pyyeti import ode

    out = []
    for ti in (0, 1):
        for (z1, z2) in ((0.02, 0.5), (0.5, 1.5)):
            modes = [c01.rb_mode("rb0", 0.0, 1.0), c01.el_mode("a", 0.3, z1, 1.0), c01.el_mode("b", 0.8, z2, 1.0)]
            T = c01.TRANS[3][ti]
            M = T.T @ np.diag([1.0, 1.0, 1.0]) @ T
            B = T.T @ np.diag([md["b"] for md in modes]) @ T
            K = T.T @ np.diag([md["k"] for md in modes]) @ T
            M, B, K = (0.5 * (X + X.T) for X in (M, B, K))
            freq = np.array([0.5, 2.0, 9.0])
            F = forces(3, 3)["dense"]
            for solver, incrb in itertools.product(("SolveUnc", "FreqDirect"), ("dva", "", "a")):
                case = dict(part="pre_eig", T=ti, z=[z1, z2], solver=solver, incrb=incrb)
                try:
                    with warnings.catch_warnings():
                        warnings.simplefilter("ignore")
                        cls = ode.SolveUnc if solver == "SolveUnc" else ode.FreqDirect
                        ts = cls(M, B, K, pre_eig=True) if solver == "SolveUnc" else cls(M, B, K)
                        sol = ts.fsolve(F.copy(), freq, incrb=incrb)
                except Exception as e:  # noqa
                    out.append((case, "%s(pre_eig): raised %r" % (solver, e)))
                    continue
                res.ev("pre_eig/%s/%s" % (solver, incrb))
                if incrb != "dva" and solver == "FreqDirect":
                    continue  # FreqDirect in physical space has no rb modes to zero
                # expected: full solution, minus the rigid-body mode's contribution for the letters left out
                d = np.zeros((3, 3), complex)
                W = 2 * np.pi * freq
                for j, w in enumerate(W):
                    d[:, j] = np.linalg.solve(-w * w * M + 1j * w * B + K, F[:, j])
                v, a = d * (1j * W), d * (-W * W)
                if solver == "SolveUnc" and incrb != "dva":
                    phi = np.linalg.inv(T)[:, 0:1]  # mass-normalised rb shape (up to sign): M-orthonormal
                    phi = phi / math.sqrt((phi.T @ M @ phi)[0, 0])
                    q = (phi.T @ F) / (-(W * W))  # rb modal displacement
                    if "d" not in incrb:
                        d = d - phi @ q
                    if "v" not in incrb:
                        v = v - phi @ (q * 1j * W)
                    if "a" not in incrb:
                        a = a - phi @ (q * -(W * W))
                for nm, x, xr in (("d", sol.d, d), ("v", sol.v, v), ("a", sol.a, a)):
                    e = np.abs(x - xr).max() / np.abs(xr).max()
                    res.err("pre_eig/" + solver, e)
                    if not e <= 1e-10:
                        out.append((case, "%s(pre_eig=%s) %s differs from the direct solution: rel err %.3g" % (solver, solver == "SolveUnc", nm, e)))
    return out


def run_pre_eig_mvec(tier, res):
    """pre_eig=True with the lumped mass handed over as a (non-uniform) vector and b, k as 2-D matrices (and the other
    mixed forms): the frequency response equals the direct solution of the physical system"""
    from pyyeti import ode

    out = []
    mv = np.array([1.0, 2.5, 0.7])
    K = np.array([[500.0, -200.0, 0.0], [-200.0, 450.0, -250.0], [0.0, -250.0, 250.0]])
    Bp = 2e-4 * K + 0.05 * np.diag(mv)  # proportional (modal) damping
    bv = np.array([0.4, 1.5, 0.3])  # dashpots to ground, as a vector
    freq = np.array([0.5, 2.0, 9.0])
    F = forces(3, 3)["dense"]
    W = 2 * np.pi * freq
    forms = {"m1d,b2d,k2d": (mv, Bp, K, Bp), "m1d,b1d,k2d": (mv, bv, K, np.diag(bv)), "m2d,b1d,k2d": (np.diag(mv), bv, K, np.diag(bv)), "mNone,b2d,k2d": (None, Bp, K, Bp)}
    for fn_, (m_, b_, k_, Bfull) in forms.items():
        Mfull = np.eye(3) if m_ is None else np.diag(mv)
        d = np.zeros((3, 3), complex)
        for j, w in enumerate(W):
            d[:, j] = np.linalg.solve(-w * w * Mfull + 1j * w * Bfull + K, F[:, j])
        for solver in ("SolveUnc",):
            case = dict(part="pre_eig_mvec", form=fn_, solver=solver)
            res.ev("pre_eig_mvec/%s" % fn_)
            try:
                with warnings.catch_warnings():
                    warnings.simplefilter("ignore")
                    sol = ode.SolveUnc(m_, b_, k_, pre_eig=True).fsolve(F.copy(), freq)
                    solt = ode.SolveUnc(m_, b_, k_, 0.01, pre_eig=True).tsolve(np.real(F).copy())
                    soln = ode.SolveUnc(m_, b_, k_, 0.01).tsolve(np.real(F).copy())
            except Exception as e:  # noqa
                out.append((case, "SolveUnc(pre_eig=True, %s) raised %r" % (fn_, e)))
                continue
            for nm, x, xr in (("d", sol.d, d), ("v", sol.v, d * (1j * W)), ("a", sol.a, d * (-W * W))):
                e = np.abs(x - xr).max() / np.abs(xr).max()
                res.err("pre_eig_mvec", e)
                if not e <= 1e-10:
                    out.append((case, "SolveUnc(pre_eig=True) with %s: %s differs from the direct solution of the physical system: rel err %.3g" % (fn_, nm, e)))
            e = np.abs(solt.d - soln.d).max() / np.abs(soln.d).max()
            if not e <= 1e-9:
                out.append((case, "SolveUnc(pre_eig=True).tsolve with %s differs from pre_eig=False: rel err %.3g" % (fn_, e)))
    return out


def run_solvepsd(tier, res):
    from pyyeti import ode

    out = []
    modes = [c01.rb_mode("rb0", 0.0, 2.0), c01.el_mode("a", 0.3, 0.05, 1.0), c01.el_mode("b", 0.8, 0.5, 1.5), c01.rf_mode(1.0)]
    sysd = modal_to_sys(modes, "psd")
    m, b, k = np.diag(sysd["M"]).copy(), np.diag(sysd["B"]).copy(), np.diag(sysd["K"]).copy()
    freq = np.array([0.5, 1.0, 2.5, 4.0, 9.0])
    nfrc = 2
    forcepsd = np.array([[1.0, 2.0, 0.5, 0.25, 3.0], [0.1, 0.1, 0.4, 0.4, 0.0]])
    t_frc = np.array([[1.0, 0.5], [0.0, 2.0], [-1.0, 1.0], [0.5, 0.0]])
    drms = [np.array([[1.0, 0, 2.0, 0], [0, 1.0, 0, -1.0]]), np.array([[0.5, 1.0, 0, 0], [0, 0, 1.0, 1.0]]),
            np.array([[2.0, 0, 0, 1.0], [1.0, 1.0, 1.0, 0]]), np.array([[1.0, -1.0], [0.0, 3.0]])]
    variants = {"dense": (forcepsd, t_frc, drms[3])}
    # a force that acts on no mode (null column of t_frc) but is recovered directly through drmf
    variants["nullcol"] = (np.vstack((forcepsd[:1], [[0.7, 0.2, 1.1, 0.6, 0.9]], forcepsd[1:])), np.column_stack((t_frc[:, 0], np.zeros(4), t_frc[:, 1])),
                           np.array([[1.0, 2.5, -1.0], [0.0, -1.5, 3.0]]))
    for vname, pattern in itertools.product(variants, itertools.product((0, 1), repeat=4)):
        if not any(pattern):
            continue
        forcepsd, t_frc, drmf = variants[vname]
        nfrc = forcepsd.shape[0]
        drms = drms[:3] + [drmf]
        for rbduf, elduf, solver, incrb in itertools.product((0.8, 1.0, 1.2), (0.5, 1.0, 1.2), ("SolveUnc", "FreqDirect"), ("dva", "a")):
            case = dict(part="solvepsd", variant=vname, pattern=list(pattern), rbduf=rbduf, elduf=elduf, solver=solver, incrb=incrb)
            quad = tuple(drms[i] if pattern[i] else None for i in range(4))
            try:
                fs = (ode.SolveUnc if solver == "SolveUnc" else ode.FreqDirect)(m, b, k, rf=[3])
                rms, psd = ode.solvepsd(fs, forcepsd, t_frc, freq, [quad, quad], rbduf=rbduf, elduf=elduf, incrb=incrb)
            except Exception as e:  # noqa
                out.append((case, "solvepsd raised %r" % (e,)))
                continue
            # independent double loop
            want = np.zeros((2, len(freq)))
            for i in range(nfrc):
                gf = t_frc[:, i : i + 1] * np.ones((1, len(freq)))
                ref = reference(sysd["M"], sysd["B"], sysd["K"], sysd["rb"], sysd["el"], sysd["rf"], gf.astype(complex), freq, incrb, False, solver)
                d, v, a = (x.copy() for x in ref[:3])
                for x in (d, v, a):
                    x[sysd["rb"]] *= rbduf
                    x[sysd["el"]] *= elduf
                H = np.zeros((2, len(freq)), complex)
                if quad[0] is not None:
                    H += quad[0] @ a
                if quad[1] is not None:
                    H += quad[1] @ v
                if quad[2] is not None:
                    H += quad[2] @ d
                if quad[3] is not None:
                    H += quad[3][:, i : i + 1] * np.ones((1, len(freq)))
                want += forcepsd[i] * np.abs(H) ** 2
            wrms = np.array([math.sqrt(sum((freq[q + 1] - freq[q]) * (want[r, q] + want[r, q + 1]) / 2 for q in range(len(freq) - 1))) for r in range(2)])
            res.ev("solvepsd/%s/%s/%s/%s" % (vname, "".join(map(str, pattern)), solver, incrb))
            for jj in range(2):
                e = np.abs(psd[jj] - want).max() / np.abs(want).max()
                er = np.abs(rms[jj] - wrms).max() / np.abs(wrms).max()
                res.err("solvepsd", max(e, er))
                if not e <= 1e-11:
                    out.append((case, "solvepsd: PSD response is not sum_i PSD_i*|H_i|^2 (rel err %.3g)" % e))
                if not er <= 1e-11:
                    out.append((case, "solvepsd: RMS is not the square root of the trapezoidal area (rel err %.3g)" % er))
    return out


# ------------------------------------------------------------------ driver
def shards(tier, seed):
    S = systems(tier)
    n = 64 if tier == "quick" else 128
    out = [dict(part="sys", idx=list(range(i, len(S), n)), tier=tier) for i in range(min(n, len(S)))]
    out.append(dict(part="pre_eig", tier=tier))
    out.append(dict(part="pre_eig_mvec", tier=tier))
    out.append(dict(part="solvepsd", tier=tier))
    r = seed % len(out)
    return out[r:] + out[:r]


def _m_rbdamped(case, msg):
    return case.get("sysname") == "rbdamped+el" and str(case.get("solver", "")).startswith("SolveUnc") and "[0]" in msg


FINDING_MATCHERS = {"C02-damped-rigid-body-fsolve": _m_rbdamped}


def run_shard(sh):
    res = Result()
    tier = sh["tier"]
    if sh["part"] == "sys":
        S = systems(tier)
        for i in sh["idx"]:
            for extra, msg in run_system(S[i], tier, res):
                case = dict(part="sys", sys=i, sysname=S[i]["name"], tier=tier, **extra)
                res.viol(case, msg, kind="%s-%s" % (msg.split(":")[0].split("/")[0], " ".join(msg.split(":")[1].split()[:1] + msg.split()[-8:-6])))
        res.sample(dict(part="sys", sysname=S[i]["name"], rb=S[i]["rb"], rf=S[i]["rf"]))
    elif sh["part"] == "pre_eig_mvec":
        for case, msg in run_pre_eig_mvec(tier, res):
            res.viol(dict(tier=tier, **case), msg, kind="pre_eig_mvec")
        res.sample(dict(part="pre_eig_mvec"))
    elif sh["part"] == "pre_eig":
        for case, msg in run_pre_eig(tier, res):
            res.viol(dict(tier=tier, **case), msg, kind="pre_eig")
        res.sample(dict(part="pre_eig"))
    else:
        for case, msg in run_solvepsd(tier, res):
            res.viol(dict(tier=tier, **case), msg, kind="solvepsd-" + msg.split(":")[1][:20])
        res.sample(dict(part="solvepsd"))
    return res


def replay(case):
    res = Result()
    tier = case["tier"]
    if case["part"] == "sys":
        S = systems(tier)[case["sys"]]
        fs = freq_sets(S.get("fn", []), bool(S["rb"]))
        out = run_system(S, tier, res, fsets={case["fset"]: fs[case["fset"]]})
        return [m for ex, m in out if ex["incrb"] == case["incrb"] and ex["solver"] == case["solver"] and ex["force"] == case["force"]
                and ex["rf_disp_only"] == case["rf_disp_only"]]
    if case["part"] == "pre_eig":
        return [m for c, m in run_pre_eig(tier, res) if all(c[k] == case[k] for k in c)]
    if case["part"] == "pre_eig_mvec":
        return [m for c, m in run_pre_eig_mvec(tier, res) if all(c[k] == case[k] for k in c)]
    return [m for c, m in run_solvepsd(tier, res) if all(c[k] == case[k] for k in c)]
