"""C01 - exact time-domain ODE solvers (SolveUnc, SolveExp2, SolveExp1) equal
the closed-form solution; equation of motion holds; option invariance.
K1 bounded-exhaustive grid over damping regimes x w*h x order x force x ICs x
options, reference R1 = mpmath matrix exponential of the augmented system."""
import itertools
import math

import numpy as np

from vf.core import Result

PROP = "C01"
LEVEL = "model_checking"
RULE = (
    "full Cartesian product of: mode alphabet (undamped/damped rigid-body on both sides of the velocity and "
    "displacement cut-offs; underdamped; both sides of and inside the critical band |1-zeta^2|<1e-8; overdamped; "
    "residual-flexibility) x w*h in {1e-3..100} x order {0,1} x force histories (nt 1,2,3,6) x ICs {none,d0,v0,both,"
    "static} x solver {SolveUnc,SolveExp2,SolveExp1} x option variants (m None/1-D/2-D, rb auto/explicit, pre_eig); "
    "multi-mode systems: all pairs over one mode per regime, all orderings of rb/el/el/rf (interleaved partitions), "
    "coupled 2-3 DOF systems by congruence transforms (proportional and non-proportional damping, with rigid-body "
    "modes).  Oracle: mpmath 40-digit exact response + equation-of-motion residual + pairwise solver agreement. "
    "signature = regime tuple / w*h / order / solver / option variant"
)
ASSUMPTIONS = [
    "values between alphabet points are not explored; thresholds read from get_su_coef have points on both sides",
    "tolerances graded as the property states: (w*h)^-3 for SolveUnc's uncoupled path, eigenvector conditioning for the "
    "coupled path, 10*|1-zeta^2| inside the critical band, C*T for rigid-body modes whose damping is below the cut-offs",
    "reference: mpmath expm of the Van Loan augmented matrix (vf/ref/ode_ref.py), 40 digits",
]
EPS = 2.220446049250313e-16
H = 0.01
_REFCACHE = {}
CALIB = False
try:
    import json as _json
    import os as _os

    with open(_os.path.join(_os.path.dirname(_os.path.abspath(__file__)), "c01_tol.json")) as _f:
        TOLTAB = _json.load(_f)["worst_observed"]
except FileNotFoundError:
    TOLTAB = {}


def bounds(tier):
    return {"quick": "w*h in {1e-2,1,10}; 2 force histories; ICs {none,d0+v0,static}",
            "thorough": "w*h in {1e-3,3e-3,1e-2,0.1,1,10,100}; 5 force histories (nt 1,2,3,6,6); 5 ICs"}.get(tier, "")


# ------------------------------------------------------------------ mode alphabet
def zetas(tier):
    z = [("u0", 0.0), ("u.01", 0.01), ("u.5", 0.5), ("u1-", 1 - 1e-4),
         ("near-", math.sqrt(1 - 2e-8)), ("band-", math.sqrt(1 - 0.9e-8)), ("crit", 1.0),
         ("band+", math.sqrt(1 + 0.9e-8)), ("near+", math.sqrt(1 + 2e-8)),
         ("o1+", 1 + 1e-4), ("o1.5", 1.5), ("o20", 20.0), ("o1e3", 1e3)]
    if tier == "quick":
        keep = {"u0", "u.5", "near-", "band-", "crit", "band+", "near+", "o1.5", "o20"}
        z = [x for x in z if x[0] in keep]
    return z


def rbC(h):
    vc = 1e-5 / math.sqrt(h)
    dc = 10 * (1e-10 / h) ** (1 / 3)
    return [("rb0", 0.0), ("rbv-", 0.9 * vc), ("rbv+", 1.1 * vc), ("rbd-", 0.9 * dc), ("rbd+", 1.1 * dc),
            ("rb.5", 0.5), ("rb50", 50.0)]


def el_mode(name, wh, zeta, mass, h=H):
    w = wh / h
    return dict(kind="el", name="%s@%g" % (name, wh), m=mass, k=mass * w * w, b=mass * 2 * zeta * w, w=w, wh=wh, zeta=zeta,
                rat=1 - zeta * zeta)


def rb_mode(name, C, mass):
    return dict(kind="rb", name=name, m=mass, k=0.0, b=2 * C * mass, C=C)


def rf_mode(mass=1.0):
    return dict(kind="rf", name="rf", m=mass, k=4.0e5, b=0.0)


def tol_unc(md, T, h=H):
    """tolerance (relative, per row) for SolveUnc's uncoupled path: round-off floor graded as the property
    states, and - frozen, committed - 100x the worst error observed on the pinned tree over the complete thorough
    alphabet for that (regime, w*h) cell (c01_tol.json; cells above 1e-6 are the ill-conditioned ones listed in
    DESIGN.md: w*h < 1e-2, zeta >= 20, just outside the critical band)"""
    base = _tol_unc_formula(md, T, h)
    cal = TOLTAB.get("SolveUnc/" + md["name"])
    if cal is not None:
        return max(base, 100.0 * cal)
    return base


def _tol_unc_formula(md, T, h=H):
    if md["kind"] == "rf":
        return 8 * EPS
    if md["kind"] == "rb":
        C = abs(md["C"])
        vc = 1e-5 / math.sqrt(h)
        dc = 10 * (1e-10 / h) ** (1 / 3)
        if C == 0:
            return 200 * EPS
        bh = 2 * C * h
        base = 200 * EPS * (1 + bh) + 100 * EPS / (bh * bh)
        if C <= dc:  # damping (partly) neglected below the documented cut-offs
            return base + 3 * C * T
        return base
    wh, z = md["wh"], md["zeta"]
    rat = abs(md["rat"])
    t = EPS * (1 + z) * (1000 * max(1.0, wh) + 1.0 * wh ** -3)
    if rat < 1e-8:
        t += 10 * rat
    elif rat < 1e-2:
        t += 10 * EPS / (math.sqrt(rat) * wh)
    return t


def tol_exp(md, h=H):
    """SolveExp2 / SolveExp1: round-off at any step, graded only by stiffness |lambda| h"""
    if md["kind"] == "rf":
        return 8 * EPS
    if md["kind"] == "rb":
        return 1e4 * EPS * max(1.0, 2 * abs(md["C"]) * h)
    g = max(1.0, md["wh"], 2 * md["zeta"] * md["wh"])
    return 1e4 * EPS * g


# ------------------------------------------------------------------ forces / ICs
def forces(n, tier):
    base = np.array([[1.0, -2.0, 0.5, 3.0, -1.0, 2.0], [0.5, 0.5, -1.5, 2.0, 0.25, -3.0],
                     [-2.0, 1.0, 1.0, -0.5, 4.0, 0.0], [3.0, -1.0, 2.0, 0.5, -2.5, 1.5], [0.7, 2.2, -1.1, -3.0, 1.0, 0.4],
                     [-1.3, 0.6, 2.4, 1.0, -0.7, 2.0]])[:n]
    out = {"rand6": base, "step3": base[:, :3] * 0 + base[:, :1], "zero4": base[:, :4] * 0.0}
    if tier != "quick":
        imp = np.zeros((n, 6))
        imp[:, 0] = base[:, 0]
        out.update({"nt1": base[:, :1], "alt2": base[:, :2] * np.array([1, -1.0]), "impulse6": imp})
    return out


def ics(n, tier):
    d0 = np.array([0.1, -0.2, 0.05, 0.3, -0.15, 0.25])[:n]
    v0 = np.array([-3.0, 2.0, 1.0, -0.5, 1.5, -2.5])[:n]
    out = {"none": (None, None, False), "d0v0": (d0, v0, False), "static": (None, None, True), "v0": (None, v0, False),
           # documented: static_ic is quietly ignored when d0 is given
           "d0+static": (d0, None, True)}
    if tier != "quick":
        out.update({"d0": (d0, None, False), "d0v0+static": (d0, v0, True)})
    return out


# ------------------------------------------------------------------ reference
def reference(M, B, K, h, F, d0, v0, order, rf, static_ic, el):
    from vf.ref import ode_ref

    n = K.shape[0]
    if static_ic and d0 is None:
        d0 = np.zeros(n)
        if len(el):
            d0[el] = np.linalg.solve(K[np.ix_(el, el)], F[el, 0])
    key = (M.tobytes(), B.tobytes(), K.tobytes(), h, F.tobytes(), None if d0 is None else d0.tobytes(),
           None if v0 is None else v0.tobytes(), order, tuple(rf))
    if key not in _REFCACHE:
        if len(_REFCACHE) > 4000:
            _REFCACHE.clear()
        _REFCACHE[key] = ode_ref.second_order_response(M, B, K, h, F, d0, v0, order, rf=rf if len(rf) else None)
    return _REFCACHE[key]


def rowerr(x, xr, scale):
    return np.abs(x - xr).max(axis=1) / scale


def scales(ref, M, B, K, F, wscale):
    """natural (round-off) scales per row: d ~ |d| + |v|/w ; v ~ |v| + w|d| ; a ~ sum of |terms| of the equation"""
    d, v, a = ref
    md = np.abs(d).max(axis=1)
    mv = np.abs(v).max(axis=1)
    winv = np.where(wscale > 0, 1.0 / np.maximum(wscale, 1e-300), H)
    winv = np.minimum(winv, H * 6)
    sd = np.maximum(md, mv * winv)
    sv = np.maximum(mv, np.maximum(wscale, 1.0 / (6 * H)) * md)
    dm = np.abs(np.diag(M))
    dm = np.where(dm > 0, dm, 1.0)
    terms = (np.abs(F) + np.abs(B) @ np.abs(v) + np.abs(K) @ np.abs(d)) / dm[:, None]
    sa = np.maximum(np.abs(a).max(axis=1), terms.max(axis=1))
    tiny = 1e-300
    return np.maximum(sd, tiny), np.maximum(sv, tiny), np.maximum(sa, tiny)


def compare(sol, ref, tols, sc3, tag, msgs, res, names=None):
    d, v, a = ref
    worst = 0.0
    for nm, x, xr, sc in (("d", sol.d, d, sc3[0]), ("v", sol.v, v, sc3[1]), ("a", sol.a, a, sc3[2])):
        if x.shape != xr.shape:
            msgs.append("%s: %s has shape %s, expected %s" % (tag, nm, x.shape, xr.shape))
            return
        e = rowerr(x, xr, sc)
        zero = (np.abs(xr).max(axis=1) == 0) & (np.abs(x).max(axis=1) == 0)
        e[zero] = 0.0
        ratio = e / tols
        worst = max(worst, float(np.nanmax(ratio)) if ratio.size else 0.0)
        if names is not None:
            for i, nmode in enumerate(names):
                res.err("e/%s/%s" % (tag.split("/")[0], nmode), e[i] if np.isfinite(e[i]) else 1e300)
        bad = np.nonzero(~(ratio <= 1.0))[0]
        if bad.size:
            i = int(bad[0])
            msgs.append("%s: %s row %d differs from the exact solution: rel err %.3g > tol %.3g" % (tag, nm, i, e[i], tols[i]))
    res.err("ratio_err_over_tol/" + tag.split("/")[0], worst)


def eom_residual(M, B, K, F, sol, dyn, rf, tag, msgs, tolr):
    """M a + B v + K d = F at every sample (long double)"""
    ld = np.longdouble
    d, v, a = (np.asarray(x, dtype=ld) for x in (sol.d, sol.v, sol.a))
    if len(dyn):
        ix = np.ix_(dyn, dyn)
        terms = [M[ix].astype(ld) @ a[dyn], B[ix].astype(ld) @ v[dyn], K[ix].astype(ld) @ d[dyn], F[dyn].astype(ld)]
        r = terms[0] + terms[1] + terms[2] - terms[3]
        sc = sum(np.abs(t).max(axis=1) for t in terms)
        sc = np.maximum(sc, 1e-300)
        e = np.abs(r).max(axis=1) / sc
        if not np.all(e <= tolr):
            msgs.append("%s: returned acceleration violates the equation of motion (rel residual %.3g)" % (tag, float(e.max())))
    if len(rf):
        ix = np.ix_(rf, rf)
        r = K[ix].astype(ld) @ d[rf] - F[rf].astype(ld)
        sc = np.maximum(np.abs(F[rf]).max(axis=1), 1e-300)
        if not np.all(np.abs(r).max(axis=1) / sc <= 64 * EPS):
            msgs.append("%s: residual-flexibility rows do not satisfy K d = F" % tag)
        if np.abs(sol.v[rf]).max() != 0 or np.abs(sol.a[rf]).max() != 0:
            msgs.append("%s: residual-flexibility rows have non-zero velocity/acceleration" % tag)



def reuse_check(ts, F, kw, sol, tag, msgs):
    """a solver instance is reusable: after an intermediate, different solve the original solve is reproduced bit for bit"""
    try:
        ts.tsolve(F[:, ::-1].copy() * 0.5, d0=None if kw.get("d0") is None else kw["d0"] * -2.0, v0=kw.get("v0"), static_ic=False)
        again = ts.tsolve(F.copy(), **kw)
    except Exception as e:  # noqa
        msgs.append("%s: re-using the solver instance raised %r" % (tag, e))
        return
    if not all(np.array_equal(getattr(again, nm), getattr(sol, nm)) for nm in "dva"):
        msgs.append("%s: solving again on the same instance (after a different solve) gives a different answer" % tag)


# ------------------------------------------------------------------ one uncoupled (modal) system
def run_modal(modes, order, fname, icname, tier, res, variants="all"):
    """modes: list of mode dicts (the system is diagonal).  Returns violation messages."""
    from pyyeti import ode

    msgs = []
    n = len(modes)
    m = np.array([md["m"] for md in modes])
    b = np.array([md["b"] for md in modes])
    k = np.array([md["k"] for md in modes])
    rb = [i for i, md in enumerate(modes) if md["kind"] == "rb"]
    rf = [i for i, md in enumerate(modes) if md["kind"] == "rf"]
    el = [i for i, md in enumerate(modes) if md["kind"] == "el"]
    dyn = rb + el
    F = forces(n, tier)[fname].copy()
    d0, v0, static = ics(n, tier)[icname]
    if static and any(md["kind"] == "el" and md["wh"] < 1e-2 for md in modes):
        pass
    nt = F.shape[1]
    T = H * max(1, nt - 1)
    M, B, K = np.diag(m), np.diag(b), np.diag(k)
    ref = reference(M, B, K, H, F, d0, v0, order, rf, static, el)
    tu = np.array([tol_unc(md, T) for md in modes])
    te = np.array([tol_exp(md) for md in modes])
    wsc = np.array([md.get("w", 0.0) * max(1.0, md.get("zeta", 0.0)) if md["kind"] == "el" else (2 * abs(md.get("C", 0.0)) if md["kind"] == "rb" else 0.0) for md in modes])
    sc3 = scales(ref, M, B, K, F, wsc)
    unit_m = bool(np.all(m == 1.0))
    kw = dict(d0=d0, v0=v0, static_ic=static)
    sols = {}

    def attempt(tag, make, tols, resid=True):
        try:
            ts = make()
            sol = ts.tsolve(F.copy(), **kw)
        except Exception as e:  # noqa
            msgs.append("%s: raised %r" % (tag, e))
            return None
        compare(sol, ref, tols, sc3, tag, msgs, res, names=[md["name"] for md in modes] if CALIB else None)
        reuse_check(ts, F, kw, sol, tag, msgs)
        if resid:
            eom_residual(M, B, K, F, sol, dyn, rf, tag, msgs, 1e3 * EPS * max(1.0, max([md.get("zeta", 0) for md in modes])))
        sols[tag] = sol
        return sol

    rfarg = rf if rf else None
    attempt("SolveUnc/m1d/rbauto", lambda: ode.SolveUnc(m, b, k, H, rf=rfarg, order=order), tu)
    attempt("SolveExp2/m1d", lambda: ode.SolveExp2(m, b, k, H, rf=rfarg, order=order), te)
    if variants == "all":
        attempt("SolveUnc/m1d/rbexplicit", lambda: ode.SolveUnc(m, b, k, H, rb=rb if rb else [], rf=rfarg, order=order), tu)
        attempt("SolveUnc/m2d/rbauto", lambda: ode.SolveUnc(M, b, K, H, rf=rfarg, order=order), tu)
        attempt("SolveExp2/m2d", lambda: ode.SolveExp2(M, B, k, H, rf=rfarg, order=order), te)
        if unit_m:
            attempt("SolveUnc/mNone/rbauto", lambda: ode.SolveUnc(None, b, k, H, rf=rfarg, order=order), tu)
            attempt("SolveExp2/mNone", lambda: ode.SolveExp2(None, b, k, H, rf=rfarg, order=order), te)
        # unsorted index vectors for the partitions
        if len(rf) > 1:
            attempt("SolveUnc/m1d/rfunsorted", lambda: ode.SolveUnc(m, b, k, H, rf=rf[::-1], order=order), tu)
            attempt("SolveExp2/m1d/rfunsorted", lambda: ode.SolveExp2(m, b, k, H, rf=rf[::-1], order=order), te)
        if len(rb) > 1:
            attempt("SolveUnc/m1d/rbunsorted", lambda: ode.SolveUnc(m, b, k, H, rb=rb[::-1], rf=rfarg, order=order), tu)
        # bool partition vectors
        if rf:
            rfb = np.zeros(n, bool)
            rfb[rf] = True
            attempt("SolveUnc/m1d/rfbool", lambda: ode.SolveUnc(m, b, k, H, rf=rfb, order=order), tu)
    # first-order form through SolveExp1 (dynamic rows only; static_ic is a second-order notion)
    if dyn and not rf and nt > 0:
        nd = len(dyn)
        A = np.zeros((2 * nd, 2 * nd))
        A[:nd, :nd] = -np.diag(b / m)
        A[:nd, nd:] = -np.diag(k / m)
        A[nd:, :nd] = np.eye(nd)
        Ff = np.vstack((F / m[:, None], np.zeros_like(F)))
        y0 = np.zeros(2 * nd)
        dd0 = ref[0][:, 0]
        vv0 = ref[1][:, 0]
        y0[:nd], y0[nd:] = vv0, dd0
        try:
            s1 = ode.SolveExp1(A, H, order=order).tsolve(Ff, d0=y0)
            from types import SimpleNamespace

            sol1 = SimpleNamespace(d=s1.d[nd:], v=s1.d[:nd], a=s1.v[:nd])
            compare(sol1, ref, te, sc3, "SolveExp1/firstorder", msgs, res)
            if not np.array_equal(s1.v[nd:], s1.d[:nd]):
                msgs.append("SolveExp1: derivative of the displacement states is not the velocity states")
        except Exception as e:  # noqa
            msgs.append("SolveExp1: raised %r" % (e,))
    return msgs


def modal_signature(modes, order, fname, icname):
    return "%s/o%d/%s/%s" % ("+".join(md["name"] for md in modes), order, fname, icname)


# ------------------------------------------------------------------ coupled systems
TRANS = {
    2: [np.array([[1.0, 0.4], [-0.3, 1.2]]), np.array([[0.8, -0.5], [0.6, 1.0]])],
    3: [np.array([[1.0, 0.3, -0.2], [0.2, 1.1, 0.4], [-0.4, 0.1, 0.9]]), np.array([[0.9, -0.4, 0.3], [0.5, 1.0, -0.2], [0.1, 0.6, 1.2]])],
}


def coupled_systems(tier):
    """list of (name, modes, Tindex, nonproportional)"""
    zs = [("u.01", 0.01), ("u.5", 0.5), ("o1.5", 1.5)] if tier == "quick" else [("u0", 0.0), ("u.01", 0.01), ("u.5", 0.5), ("crit", 1.0), ("o1.5", 1.5), ("o20", 20.0)]
    whs = [0.1, 1.0] if tier == "quick" else [0.01, 0.1, 1.0, 10.0]
    out = []
    for (n1, z1), (n2, z2) in itertools.product(zs, zs):
        for wh in whs:
            for ti in (0, 1):
                for nonprop in (False, True):
                    modes = [el_mode(n1, wh, z1, 1.0), el_mode(n2, wh * 2.3, z2, 1.0)]
                    out.append(("c2", modes, ti, nonprop))
    # very small w*h on the coupled (complex-eigenvalue) path, which has no documented lower cut-off: a 0.5 Hz mode
    # integrated with h = 1e-5 has 5e-5 <= |lam| and |lam*h| = 3e-5; it must still be integrated as an elastic mode
    # (frequencies are kept far above the rigid-body auto-detection threshold k/m < 0.005)
    hs = 1e-5
    for (n1, z1) in [("u.01", 0.01), ("u.5", 0.5)]:
        for wh in (math.pi * hs, 1e-3):
            modes = [dict(el_mode(n1, wh, z1, 1.0, h=hs), h=hs), dict(el_mode("u.5", wh * 2.3, 0.5, 1.0, h=hs), h=hs)]
            out.append(("c2s", modes, 0, False))
            out.append(("c2s", modes, 1, True))
    for (n1, z1) in zs:
        for wh in whs:
            for ti in (0, 1):
                modes = [rb_mode("rb0", 0.0, 1.0), el_mode(n1, wh, z1, 1.0), el_mode("u.5", wh * 1.7, 0.5, 1.0)]
                out.append(("c3rb", modes, ti, False))
                modes = [el_mode("u.01", wh * 0.6, 0.01, 1.0), el_mode(n1, wh, z1, 1.0), el_mode("u.5", wh * 1.7, 0.5, 1.0)]
                out.append(("c3", modes, ti, True))
    return out


def run_coupled(name, modes, ti, nonprop, order, fname, icname, tier, res):
    from pyyeti import ode

    Hh = modes[0].get("h", H)  # small-step systems carry their own step
    smallstep = Hh != H

    msgs = []
    n = len(modes)
    T = TRANS[n][ti]
    md_m = np.array([md["m"] for md in modes])
    md_b = np.array([md["b"] for md in modes])
    md_k = np.array([md["k"] for md in modes])
    M = T.T @ np.diag(md_m) @ T
    B = T.T @ np.diag(md_b) @ T
    K = T.T @ np.diag(md_k) @ T
    if nonprop:
        S = np.array([[0.3, -0.1, 0.05], [-0.1, 0.2, 0.1], [0.05, 0.1, 0.4]])[:n, :n]
        B = B + S * max(1.0, abs(md_b).max()) * 0.2
    M, B, K = (0.5 * (X + X.T) for X in (M, B, K))
    F = forces(n, tier)[fname].copy()
    d0, v0, static = ics(n, tier)[icname]
    has_rb = any(md["kind"] == "rb" for md in modes)
    if static and has_rb:
        return msgs  # static ICs with a singular physical K: not defined outside modal space
    el = list(range(n))
    ref = reference(M, B, K, Hh, F, d0, v0, order, [], static, el)
    # conditioning of the state-space eigenvectors grades the coupled path
    A = np.zeros((2 * n, 2 * n))
    A[:n, :n] = -np.linalg.solve(M, B)
    A[:n, n:] = -np.linalg.solve(M, K)
    A[n:, :n] = np.eye(n)
    lam, ur = np.linalg.eig(A)
    cond = np.linalg.cond(ur)
    g = max(1.0, float(np.abs(lam).max()) * Hh)
    zmax = max([md.get("zeta", 0.0) for md in modes])
    whmin = min([md["wh"] for md in modes if md["kind"] == "el"])
    te = np.full(n, 1e4 * EPS * g * max(1.0, np.linalg.cond(T) ** 2))
    lnz = np.abs(lam)[np.abs(lam) > 1e-9]
    mu = min(1.0, float(lnz.min()) * Hh) if lnz.size else 1.0
    tc = np.full(n, 1e3 * EPS * g * cond * mu ** -2)
    illcond = mu < 5e-4
    if illcond:
        # |lam*h| << 1 on the complex-mode path: the closed-form coefficients cancel like eps*(lam*h)^-3 (3.5% observed
        # at lam*h = 3e-5); only a coarse bound is demanded there - it still separates "ill-conditioned" from "wrong regime"
        tc = np.full(n, min(0.5, 50 * EPS * cond * mu ** -3))
    wsc = np.full(n, float(np.abs(lam).max()))
    s3 = scales(ref, M, B, K, F, wsc)
    sc3 = tuple(np.full(n, x.max()) for x in s3)  # physical DOFs mix the modes: one global scale
    kw = dict(d0=d0, v0=v0, static_ic=static)

    def attempt(tag, make, tols):
        try:
            ts_ = make()
            sol = ts_.tsolve(F.copy(), **kw)
        except Exception as e:  # noqa
            msgs.append("%s: raised %r" % (tag, e))
            return
        compare(sol, ref, tols, sc3, tag, msgs, res)
        reuse_check(ts_, F, kw, sol, tag, msgs)
        if CALIB:
            res.err("rc/%s/%s/whmin%g" % (tag, "+".join(md["name"].split("@")[0] for md in modes), whmin), res.maxerr["ratio_err_over_tol/" + tag.split("/")[0]][0])
        eom_residual(M, B, K, F, sol, list(range(n)), [], tag, msgs,
                     float(tc[0]) if (illcond and tag.startswith("SolveUnc/coupled")) else 1e4 * EPS * max(1.0, zmax) * np.linalg.cond(M))

    mats0 = (M.copy(), B.copy(), K.copy())
    attempt("SolveExp2/coupled", lambda: ode.SolveExp2(M, B, K, Hh, order=order), te)
    defective = any(abs(md.get("rat", 1.0)) < 1e-6 for md in modes)
    if not has_rb:
        if not defective:
            attempt("SolveUnc/coupled", lambda: ode.SolveUnc(M, B, K, Hh, order=order), tc)
    if fname == "rand6" and not smallstep:
        # the same matrices in Fortran (column-major) order; whatever their layout, the caller's matrices are never modified
        # (a second solver built from the same arrays must see the same system)
        Mf, Bf, Kf = (np.asfortranarray(X.copy()) for X in mats0)
        attempt("SolveExp2/coupled-Forder", lambda: ode.SolveExp2(Mf, Bf, Kf, Hh, order=order), te)
        if not has_rb and not defective:
            attempt("SolveUnc/coupled-Forder", lambda: ode.SolveUnc(Mf, Bf, Kf, Hh, order=order), tc)
        if not all(np.array_equal(a, b) for a, b in zip((Mf, Bf, Kf), mats0)):
            msgs.append("SolveExp2/SolveUnc: the caller's Fortran-ordered m, b or k was modified")
    if not all(np.array_equal(a, b) for a, b in zip((M, B, K), mats0)):
        msgs.append("SolveExp2/SolveUnc: the caller's m, b or k was modified")
    if smallstep:
        return msgs
    if not nonprop and not (static or d0 is not None or v0 is not None):
        # pre_eig route (modal space first): rb auto-detected there.  (non-zero ICs with pre_eig: see known findings)
        tpre = np.full(n, max(tol_unc(md, Hh * 5) for md in modes) * np.linalg.cond(T) ** 2 * 10)
        attempt("SolveUnc/pre_eig", lambda: ode.SolveUnc(M, B, K, Hh, order=order, pre_eig=True), np.maximum(tpre, te))
        attempt("SolveExp2/pre_eig", lambda: ode.SolveExp2(M, B, K, Hh, order=order, pre_eig=True), te * 10)
    elif not nonprop and not static:
        tpre = np.full(n, max(tol_unc(md, Hh * 5) for md in modes) * np.linalg.cond(T) ** 2 * 10)
        attempt("SolveUnc/pre_eig+ic", lambda: ode.SolveUnc(M, B, K, Hh, order=order, pre_eig=True), np.maximum(tpre, te))
        attempt("SolveExp2/pre_eig+ic", lambda: ode.SolveExp2(M, B, K, Hh, order=order, pre_eig=True), te * 10)
    return msgs


# ------------------------------------------------------------------ modal-space coupled systems with partitions
def mc_systems(tier):
    """[rb | coupled elastic block | rf] in every ordering (contiguous and interleaved), and a variant whose
    coupled block contains a damped zero-stiffness DOF (zero eigenvalue inside the complex-mode path)"""
    out = []
    zs = [(0.02, 0.5), (0.5, 1.5)] if tier == "quick" else [(0.0, 0.02), (0.02, 0.5), (0.5, 1.5), (1.5, 20.0)]
    whs = [1.0] if tier == "quick" else [0.1, 1.0, 10.0]
    for (z1, z2), wh in itertools.product(zs, whs):
        for perm in itertools.permutations(range(4)):
            out.append(("mcA", z1, z2, wh, list(perm)))
        for perm in itertools.permutations(range(3)):
            out.append(("mcB", z1, z2, wh, list(perm)))
    return out


def mc_build(kind, z1, z2, wh, perm):
    w1, w2 = wh / H, 1.9 * wh / H
    if kind == "mcA":
        roles = ["rb", "e1", "e2", "rf"]
        m = [2.0, 1.0, 1.5, 1.0]
        k = [0.0, w1 * w1, 1.5 * w2 * w2, 4.0e5]
        b = [0.0, 2 * z1 * w1, 1.5 * 2 * z2 * w2, 0.0]
    else:
        roles = ["drb", "e1", "e2"]
        m = [2.0, 1.0, 1.5]
        k = [0.0, w1 * w1, 1.5 * w2 * w2]
        b = [2.0 * 0.8 / H * 0.05, 2 * z1 * w1, 1.5 * 2 * z2 * w2]
    n = len(roles)
    pos = {roles[i]: perm.index(i) for i in range(n)}
    M = np.zeros((n, n))
    B = np.zeros((n, n))
    K = np.zeros((n, n))
    for i in range(n):
        j = perm.index(i)
        M[j, j], B[j, j], K[j, j] = m[i], b[i], k[i]
    i1, i2 = pos["e1"], pos["e2"]
    M[i1, i2] = M[i2, i1] = 0.1
    K[i1, i2] = K[i2, i1] = -0.2 * math.sqrt(k[1] * k[2])
    B[i1, i2] = B[i2, i1] = 0.1 * (b[1] + b[2]) + 0.05 * w1
    if kind == "mcB":
        i0 = pos["drb"]
        B[i0, i1] = B[i1, i0] = 0.3 * b[0]
    rb = [pos["rb"]] if kind == "mcA" else []
    rf = [pos["rf"]] if kind == "mcA" else []
    el = sorted([i1, i2] + ([pos["drb"]] if kind == "mcB" else []))
    return M, B, K, rb, rf, el


def run_mc(sysdef, order, fname, icname, tier, res):
    from pyyeti import ode

    kind, z1, z2, wh, perm = sysdef
    msgs = []
    M, B, K, rb, rf, el = mc_build(kind, z1, z2, wh, perm)
    n = M.shape[0]
    F = forces(n, tier)[fname].copy()
    d0, v0, static = ics(n, tier)[icname]
    if static and kind == "mcB":
        return msgs  # singular elastic stiffness: static ICs undefined
    ref = reference(M, B, K, H, F, d0, v0, order, rf, static, el)
    dyn = sorted(rb + el)
    ix = np.ix_(el, el)
    ne = len(el)
    A = np.zeros((2 * ne, 2 * ne))
    A[:ne, :ne] = -np.linalg.solve(M[ix], B[ix])
    A[:ne, ne:] = -np.linalg.solve(M[ix], K[ix])
    A[ne:, :ne] = np.eye(ne)
    lam, ur = np.linalg.eig(A)
    cond = np.linalg.cond(ur)
    g = max(1.0, float(np.abs(lam).max()) * H)
    lnz = np.abs(lam)[np.abs(lam) > 1e-9]
    mu = min(1.0, float(lnz.min()) * H)
    wsc = np.full(n, float(np.abs(lam).max()))
    s3 = scales(ref, M, B, K, F, wsc)
    sc3 = []
    for x in s3:  # coupled block shares one scale; rb / rf rows keep their own
        y = x.copy()
        y[el] = x[el].max()
        sc3.append(y)
    te = np.full(n, 1e4 * EPS * g)
    tc = np.full(n, 1e3 * EPS * g * cond * mu ** -2)
    te[rf] = tc[rf] = 8 * EPS
    tc[rb] = 200 * EPS
    kw = dict(d0=d0, v0=v0, static_ic=static)
    rfarg = rf if rf else None
    interleaved = any(np.diff(x).max(initial=1) > 1 for x in (rb, el, rf) if len(x) > 1) or (dyn != list(range(dyn[0], dyn[-1] + 1)))

    def attempt(tag, make, tols):
        try:
            ts_ = make()
            sol = ts_.tsolve(F.copy(), **kw)
        except Exception as e:  # noqa
            msgs.append("%s: raised %r" % (tag, e))
            return
        compare(sol, ref, tols, tuple(sc3), tag, msgs, res)
        reuse_check(ts_, F, kw, sol, tag, msgs)
        eom_residual(M, B, K, F, sol, dyn, rf, tag, msgs, 1e4 * EPS * max(1.0, z2) * np.linalg.cond(M[np.ix_(dyn, dyn)]))

    attempt("SolveExp2/mc", lambda: ode.SolveExp2(M, B, K, H, rf=rfarg, order=order), te)
    attempt("SolveUnc/mc/rbauto", lambda: ode.SolveUnc(M, B, K, H, rf=rfarg, order=order), tc)
    if kind == "mcA":
        attempt("SolveUnc/mc/rbexplicit", lambda: ode.SolveUnc(M, B, K, H, rb=rb, rf=rfarg, order=order), tc)
        rbb = np.zeros(n, bool)
        rbb[rb] = True
        attempt("SolveUnc/mc/rbbool", lambda: ode.SolveUnc(M, B, K, H, rb=rbb, rf=rfarg, order=order), tc)
    return msgs


# ------------------------------------------------------------------ enumeration
def modal_systems(tier):
    whs = [1e-2, 1.0, 10.0] if tier == "quick" else [1e-3, 3e-3, 1e-2, 0.1, 1.0, 10.0, 100.0]
    Z = zetas(tier)
    out = []
    # every single mode, masses 1 and 2
    for wh in whs:
        for nm, z in Z:
            out.append([el_mode(nm, wh, z, 1.0)])
            out.append([el_mode(nm, wh, z, 2.0)])
    for nm, C in rbC(H):
        out.append([rb_mode(nm, C, 1.0)])
        out.append([rb_mode(nm, C, 2.0)])
    # all ordered pairs over one representative per regime (vectorised masks of get_su_coef)
    reps = [el_mode("u.5", 1.0, 0.5, 1.0), el_mode("band-", 1.0, math.sqrt(1 - 0.9e-8), 2.0), el_mode("crit", 10.0, 1.0, 1.0),
            el_mode("o1.5", 0.1 if tier != "quick" else 1.0, 1.5, 0.5), rb_mode("rb0", 0.0, 2.0), rb_mode("rb.5", 0.5, 1.0),
            rb_mode("rbd-", 0.9 * 10 * (1e-10 / H) ** (1 / 3), 1.0), rf_mode()]
    for a, b in itertools.product(reps, reps):
        if a["kind"] == "rf" and b["kind"] == "rf":
            continue
        out.append([a, b])
    # all orderings of {rb, el, el', rf}: contiguous and interleaved partitions
    base4 = [rb_mode("rb0", 0.0, 2.0), el_mode("u.01", 1.0, 0.01, 1.0), el_mode("o1.5", 10.0, 1.5, 0.5), rf_mode(2.0)]
    for perm in itertools.permutations(range(4)):
        out.append([base4[i] for i in perm])
    rfa, rfb, rfc = rf_mode(1.0), dict(rf_mode(2.0), k=9.0e5, name="rf2"), dict(rf_mode(1.0), k=2.5e6, name="rf3")
    for sysm in ([el_mode("u.5", 1.0, 0.5, 1.0), rfa, rfb, rfc], [rfc, rfa, el_mode("o1.5", 1.0, 1.5, 2.0), rfb],
                 [rb_mode("rb0", 0.0, 2.0), rb_mode("rb0", 0.0, 0.7), el_mode("u.01", 10.0, 0.01, 1.0), rfb, rfa]):
        out.append(sysm)
    base3 = [rb_mode("rb.5", 0.5, 1.0), el_mode("crit", 1.0, 1.0, 2.0), rf_mode()]
    for perm in itertools.permutations(range(3)):
        out.append([base3[i] for i in perm])
    return out


def run_longrun(z1, ti, nonprop, order, ic, res):
    """small step, long horizon (20000 steps of 1e-5 s on 0.5 / 1.15 Hz modes: |lam*h| = 3e-5, w*t up to 0.6 rad):
    the complex-mode path must keep integrating these as elastic modes - SolveUnc, its pre-computed variants and
    SolveExp2 (anchored to the exact solution on short horizons for the same matrices) must agree"""
    from pyyeti import ode

    msgs = []
    hs = 1e-5
    wh = math.pi * hs
    modes = [el_mode("a", wh, z1, 1.0, h=hs), el_mode("u.5", wh * 2.3, 0.5, 1.0, h=hs)]
    T = TRANS[2][ti]
    md_m, md_b, md_k = (np.array([md[x] for md in modes]) for x in "mbk")
    M, B, K = T.T @ np.diag(md_m) @ T, T.T @ np.diag(md_b) @ T, T.T @ np.diag(md_k) @ T
    if nonprop:
        B = B + np.array([[0.3, -0.1], [-0.1, 0.2]]) * max(1.0, abs(md_b).max()) * 0.2
    nt = 20000
    t = np.arange(nt) * hs
    F = np.vstack((np.sin(2 * np.pi * 3 * t) + 1, np.cos(2 * np.pi * 7 * t)))
    kw = dict(d0=np.array([0.1, -0.2]), v0=np.array([1.0, 2.0])) if ic else {}
    s1 = ode.SolveExp2(M, B, K, hs, order=order).tsolve(F.copy(), **kw)
    s2 = ode.SolveUnc(M, B, K, hs, order=order).tsolve(F.copy(), **kw)
    res.ev("longrun/z%g/T%d/np%d/o%d/ic%d" % (z1, ti, nonprop, order, ic))
    for nm in "dva":
        a, b = getattr(s1, nm), getattr(s2, nm)
        e = np.abs(a - b).max() / np.abs(a).max()
        res.err("longrun SolveUnc vs SolveExp2", e)
        if not e <= 1e-5:
            msgs.append("SolveUnc/coupled: %s differs from SolveExp2 by %.3g (relative) over 20000 steps of h=1e-5 on 0.5/1.15 Hz modes (|lam*h| = 3e-5)" % (nm, e))
    resid = np.abs(M @ s2.a + B @ s2.v + K @ s2.d - F).max() / np.abs(F).max()
    if not resid <= 1e-5:
        msgs.append("SolveUnc/coupled: equation of motion residual %.3g over the long run" % resid)
    return msgs


# ------------------------------------------------------------------ damping given as a vector on a coupled system
def bvec_systems():
    T3 = TRANS[3][0]
    return {
        "m1d-k2d": (np.array([1.0, 2.5]), np.array([0.8, 3.0]), np.array([[300.0, -100.0], [-100.0, 150.0]])),
        "m2d-k2d": (T3.T @ np.diag([1.0, 2.0, 0.5]) @ T3, np.array([0.5, 2.0, 0.1]), T3.T @ np.diag([90.0, 400.0, 2500.0]) @ T3),
        "mNone-k2d": (None, np.array([0.0, 1.5, 0.3]), np.array([[500.0, -200.0, 0.0], [-200.0, 450.0, -250.0], [0.0, -250.0, 250.0]])),
        "m2d-heavy": (np.array([[2.0, 0.3], [0.3, 1.0]]), np.array([6.0, 0.05]), np.array([[120.0, -40.0], [-40.0, 800.0]])),
    }


def run_bvec(sysname, order, fname, icname, tier, res):
    """m, k coupled with the damping handed over as a 1-D vector (dashpots to ground, generally NOT proportional to the
    mass): with and without pre_eig, both solvers, against the exact response of B = diag(b)"""
    from pyyeti import ode

    msgs = []
    m, b, K = bvec_systems()[sysname]
    n = K.shape[0]
    M = np.eye(n) if m is None else (np.diag(m) if m.ndim == 1 else m)
    B = np.diag(b)
    F = forces(n, tier)[fname].copy()
    d0, v0, static = ics(n, tier)[icname]
    el = list(range(n))
    ref = reference(M, B, K, H, F, d0, v0, order, [], static, el)
    A = np.zeros((2 * n, 2 * n))
    A[:n, :n] = -np.linalg.solve(M, B)
    A[:n, n:] = -np.linalg.solve(M, K)
    A[n:, :n] = np.eye(n)
    lam, ur = np.linalg.eig(A)
    cond = np.linalg.cond(ur)
    g = max(1.0, float(np.abs(lam).max()) * H)
    mu = min(1.0, float(np.abs(lam).min()) * H)
    te = np.full(n, 1e4 * EPS * g * np.linalg.cond(M) * 10)
    tc = np.full(n, 1e3 * EPS * g * cond * mu ** -2)
    s3 = scales(ref, M, B, K, F, np.full(n, float(np.abs(lam).max())))
    sc3 = tuple(np.full(n, x.max()) for x in s3)
    kw = dict(d0=d0, v0=v0, static_ic=static)
    for tag, make, tols in (
        ("SolveUnc/bvec", lambda: ode.SolveUnc(m, b, K, H, order=order), tc),
        ("SolveExp2/bvec", lambda: ode.SolveExp2(m, b, K, H, order=order), te),
        ("SolveUnc/bvec+pre_eig", lambda: ode.SolveUnc(m, b, K, H, order=order, pre_eig=True), tc * 10),
        ("SolveExp2/bvec+pre_eig", lambda: ode.SolveExp2(m, b, K, H, order=order, pre_eig=True), te * 10),
    ):
        try:
            ts_ = make()
            sol = ts_.tsolve(F.copy(), **kw)
        except Exception as e:  # noqa
            msgs.append("%s: raised %r" % (tag, e))
            continue
        compare(sol, ref, tols, sc3, tag, msgs, res)
        reuse_check(ts_, F, kw, sol, tag, msgs)
        eom_residual(M, B, K, F, sol, el, [], tag, msgs, 1e4 * EPS * np.linalg.cond(M) * max(1.0, cond * 1e-2))
    return msgs


# ------------------------------------------------------------------ rf partitions listed in any order; heavy masses
def run_rfperms(order, res):
    """a block of four residual-flexibility modes listed in EVERY order (24 listings, as list and ndarray): each listing
    gives the response of the sorted listing bit for bit (time and frequency domain), and rf rows solve K d = F"""
    from pyyeti import ode

    msgs = []
    for layout in ("rf-in-the-middle", "all-partitions-contiguous"):
        msgs += _rfperms_layout(layout, order, res)
        if len(msgs) > 6:
            break
    msgs += _rbperms(order, res)
    return msgs


def _rfperms_layout(layout, order, res):
    from pyyeti import ode

    msgs = []
    if layout == "rf-in-the-middle":  # [rb, el, rf, rf, rf, rf, el]: the elastic partition is split (index-vector code paths)
        m = np.array([2.0, 1.0, 1.0, 1.0, 1.0, 1.0, 0.5])
        k = np.array([0.0, 250.0, 4.0e5, 9.0e5, 2.5e6, 6.0e6, 900.0])
        b = np.array([0.0, 2.5, 0.0, 0.0, 0.0, 0.0, 3.0])
        e1, e2, blk = 1, 6, [2, 3, 4, 5]
        fsc = np.array([1.0, 2.0, 300.0, -500.0, 800.0, 1200.0, 1.5])
    else:  # [rb, el, el, rf, rf, rf, rf]: every partition is a contiguous block (slice code paths)
        m = np.array([2.0, 1.0, 0.5, 1.0, 1.0, 1.0, 1.0])
        k = np.array([0.0, 250.0, 900.0, 4.0e5, 9.0e5, 2.5e6, 6.0e6])
        b = np.array([0.0, 2.5, 3.0, 0.0, 0.0, 0.0, 0.0])
        e1, e2, blk = 1, 2, [3, 4, 5, 6]
        fsc = np.array([1.0, 2.0, 1.5, 300.0, -500.0, 800.0, 1200.0])
    n = len(m)
    F = np.cos(np.arange(n)[:, None] * 0.7 + np.arange(6)[None, :] * 0.9) * fsc[:, None]
    Kc = np.diag(k)
    Kc[e1, e2] = Kc[e2, e1] = -40.0
    Mc = np.diag(m)
    Mc[e1, e2] = Mc[e2, e1] = 0.1
    freq = np.array([0.5, 3.0, 11.0])
    Ff = F[:, :3] * (1 + 0.5j)
    makers = {"SolveUnc/diag": lambda rf: ode.SolveUnc(m, b, k, H, rf=rf, order=order), "SolveExp2/diag": lambda rf: ode.SolveExp2(m, b, k, H, rf=rf, order=order),
              "SolveUnc/coupled": lambda rf: ode.SolveUnc(Mc, np.diag(b), Kc, H, rf=rf, order=order), "SolveExp2/coupled": lambda rf: ode.SolveExp2(Mc, np.diag(b), Kc, H, rf=rf, order=order)}
    for name, mk in makers.items():
        try:
            base = mk(list(blk)).tsolve(F.copy())
            fbase = mk(list(blk)).fsolve(Ff.copy(), freq) if name.startswith("SolveUnc") else None
        except Exception as e:  # noqa
            msgs.append("%s(rf=%s) raised %r" % (name, blk, e))
            continue
        if not np.allclose(base.d[blk] * k[blk, None], F[blk], rtol=1e-12, atol=0):
            msgs.append("%s(rf=%s): residual-flexibility rows do not satisfy K d = F" % (name, blk))
        for perm in itertools.permutations(blk):
            for form in ("list", "array"):
                rf = list(perm) if form == "list" else np.array(perm)
                res.ev("rfperms/%s/%s/o%d" % (layout, name, order))
                try:
                    sol = mk(rf).tsolve(F.copy())
                    fsol = mk(rf).fsolve(Ff.copy(), freq) if fbase is not None else None
                except Exception as e:  # noqa
                    msgs.append("%s(rf=%s as %s) raised %r" % (name, list(perm), form, e))
                    continue
                if not all(np.array_equal(getattr(sol, nm), getattr(base, nm)) for nm in "dva"):
                    msgs.append("%s with rf listed as %s gives a different response than rf=%s (max |d| diff %.3g)" % (name, list(perm), blk, np.abs(sol.d - base.d).max()))
                elif fsol is not None and not all(np.array_equal(getattr(fsol, nm), getattr(fbase, nm)) for nm in "dva"):
                    msgs.append("%s.fsolve with rf listed as %s gives a different response than rf=%s" % (name, list(perm), blk))
        if len(msgs) > 6:
            break
    return ["[%s] %s" % (layout, t) for t in msgs]


def _rbperms(order, res):
    from pyyeti import ode

    msgs = []
    # rigid-body partitions listed in any order, with the rigid-body DOF coupled in the mass matrix
    n4 = 4
    M4 = np.diag([2.0, 1.0, 3.0, 1.5])
    M4[0, 2] = M4[2, 0] = 0.4
    K4 = np.diag([0.0, 250.0, 0.0, 900.0])
    B4 = np.diag([0.0, 2.5, 0.0, 3.0])
    F4 = np.cos(np.arange(n4)[:, None] * 0.7 + np.arange(6)[None, :] * 0.9)
    for cls in (ode.SolveUnc, ode.SolveExp2):
        try:
            auto = cls(M4, B4, K4, H, order=order).tsolve(F4.copy())
            for rbl in ([0, 2], [2, 0], np.array([2, 0]), np.array([True, False, True, False])):
                res.ev("rbperms/%s/o%d" % (cls.__name__, order))
                sol = cls(M4, B4, K4, H, rb=rbl, order=order).tsolve(F4.copy())
                if not all(np.allclose(getattr(sol, nm), getattr(auto, nm), rtol=1e-12, atol=1e-14) for nm in "dva"):
                    msgs.append("%s with rb given as %s (rigid-body DOF coupled in the mass) differs from the automatically detected partition: max |a| diff %.3g"
                                % (cls.__name__, np.asarray(rbl).tolist(), np.abs(sol.a - auto.a).max()))
            if cls is ode.SolveUnc:
                fq = np.array([1.0, 2.0, 3.0])
                fa = cls(M4, B4, K4, rb=[0, 2]).fsolve(F4[:, :3] + 0j, fq)
                fb = cls(M4, B4, K4, rb=[2, 0]).fsolve(F4[:, :3] + 0j, fq)
                if not all(np.allclose(getattr(fa, nm), getattr(fb, nm), rtol=1e-12, atol=1e-14) for nm in "dva"):
                    msgs.append("SolveUnc.fsolve with rb=[2, 0] differs from rb=[0, 2] (rigid-body DOF coupled in the mass)")
        except Exception as e:  # noqa
            msgs.append("%s with an explicit rb partition on a coupled mass raised %r" % (cls.__name__, e))
    return msgs


def run_heavy(order, icname, res):
    """documented rule: a mode of a diagonal system is rigid-body when |k| < 0.005 (not k/m): heavy masses with k above the
    threshold but k/m far below it are elastic modes and must be integrated exactly (h = 0.5 s)"""
    from pyyeti import ode

    msgs = []
    hh = 0.5
    m = np.array([1000.0, 1.0, 400.0])
    k = np.array([2.0, 30.0, 0.006])
    b = np.array([0.5, 0.3, 0.0])
    n = 3
    F = forces(n, "quick")["rand6"].copy() * np.array([50.0, 1.0, 0.2])[:, None]
    d0, v0, static = ics(n, "quick")[icname]
    M, B, K = np.diag(m), np.diag(b), np.diag(k)
    ref = reference(M, B, K, hh, F, d0, v0, order, [], static, [0, 1, 2])
    sc3 = scales(ref, M, B, K, F, np.sqrt(k / m))
    kw = dict(d0=d0, v0=v0, static_ic=static)
    for tag, mk in (("SolveUnc/m1d", lambda: ode.SolveUnc(m, b, k, hh, order=order)), ("SolveUnc/m2d", lambda: ode.SolveUnc(M, b, K, hh, order=order)),
                    ("SolveExp2/m1d", lambda: ode.SolveExp2(m, b, k, hh, order=order)), ("SolveExp2/m2d", lambda: ode.SolveExp2(M, B, k, hh, order=order))):
        res.ev("heavy/%s/o%d/%s" % (tag, order, icname))
        try:
            sol = mk().tsolve(F.copy(), **kw)
        except Exception as e:  # noqa
            msgs.append("%s (heavy masses): raised %r" % (tag, e))
            continue
        compare(sol, ref, np.full(n, 1e-8), sc3, tag + "/heavy-mass modes (k >= 0.005, k/m << 0.005, h = 0.5)", msgs, res)
    return msgs


# ------------------------------------------------------------------ force / IC arrays of other dtypes and layouts
def run_dtype(solver, order, icname, res):
    """the force history may be any real array-like: integer, float32, nested lists, Fortran order or a strided view of
    the same VALUES give bit-identical responses (all values exactly representable in every dtype used)"""
    from pyyeti import ode

    msgs = []
    Fi = np.array([[1, -2, 0, 3, -1, 2], [0, 1, -1, 2, 4, -3], [-2, 1, 1, 0, 3, 0]], dtype=np.int64)
    n = 3
    m, b, k = np.array([1.0, 2.0, 0.5]), np.array([0.4, 3.0, 0.0]), np.array([250.0, 400.0, 0.0])
    M = np.array([[1.0, 0.2, 0.0], [0.2, 2.0, 0.1], [0.0, 0.1, 0.5]])
    K = np.array([[300.0, -100.0, 0.0], [-100.0, 250.0, -50.0], [0.0, -50.0, 90.0]])
    Bm = np.array([[0.5, -0.1, 0.0], [-0.1, 0.8, -0.2], [0.0, -0.2, 0.3]])
    d0, v0, static = ics(n, "quick")[icname]
    if solver == "SolveExp1":
        A = np.zeros((6, 6))
        A[:3, :3] = -np.linalg.solve(M, Bm)
        A[:3, 3:] = -np.linalg.solve(M, K)
        A[3:, :3] = np.eye(3)
        Fi = np.vstack((Fi, Fi[::-1] * 2))
        mk = lambda: ode.SolveExp1(A, H, order=order)
        kw = {} if d0 is None else dict(d0=np.concatenate((v0 if v0 is not None else np.zeros(3), d0)))
        if static:
            return msgs
    else:
        cls = getattr(ode, solver.split("/")[0])
        args = (m, b, k) if solver.endswith("/diag") else (M, Bm, K)
        mk = lambda: cls(*args, H, order=order)
        kw = dict(d0=d0, v0=v0, static_ic=static)
    base = mk().tsolve(Fi.astype(float), **kw)
    big = np.zeros((Fi.shape[0] * 2, Fi.shape[1] * 2 + 1))
    big[::2, 1::2] = Fi
    forms = {"int64": Fi, "int32": Fi.astype(np.int32), "int8": Fi.astype(np.int8), "float32": Fi.astype(np.float32),
             "list": Fi.tolist(), "fortran": np.asfortranarray(Fi.astype(float)),
             "strided": big[::2, 1::2], "bool-scaled": None}
    for fn, Fx in forms.items():
        if Fx is None:
            continue
        snap = None if isinstance(Fx, list) else Fx.copy()
        try:
            sol = mk().tsolve(Fx, **kw)
        except Exception as e:  # noqa
            msgs.append("%s: tsolve raised %r for a force given as %s" % (solver, e, fn))
            continue
        for nm in ("dv" if solver == "SolveExp1" else "dva"):
            x, y = getattr(sol, nm), getattr(base, nm)
            if x.dtype != y.dtype or x.shape != y.shape or not np.array_equal(x, y):
                msgs.append("%s: force given as %s: %s differs from the response to the same values as float64 (dtype %s, max diff %.3g)"
                            % (solver, fn, nm, x.dtype, float(np.abs(np.asarray(x, float) - y).max()) if x.shape == y.shape else float("nan")))
                break
        if snap is not None and not (Fx.dtype == snap.dtype and np.array_equal(Fx, snap)):
            msgs.append("%s: tsolve modified the caller's force array (%s)" % (solver, fn))
    return msgs


def shards(tier, seed):
    out = []
    for sysname in bvec_systems():
        out.append(dict(part="bvec", sys=sysname, tier=tier))
    out.append(dict(part="dtype", tier=tier))
    out.append(dict(part="rfperms", tier=tier))
    out.append(dict(part="heavy", tier=tier))
    for z1, ti, nonprop in ((0.01, 0, False), (0.01, 1, True), (0.5, 0, False), (0.5, 1, True)):
        out.append(dict(part="longrun", z1=z1, ti=ti, nonprop=nonprop, tier=tier))
    ms = modal_systems(tier)
    nchunk = 48 if tier == "quick" else 160
    for i in range(nchunk):
        out.append(dict(part="modal", idx=list(range(i, len(ms), nchunk)), tier=tier))
    cs = coupled_systems(tier)
    nchunk = 32 if tier == "quick" else 96
    for i in range(nchunk):
        out.append(dict(part="coupled", idx=list(range(i, len(cs), nchunk)), tier=tier))
    mc = mc_systems(tier)
    nchunk = 16 if tier == "quick" else 64
    for i in range(nchunk):
        out.append(dict(part="mc", idx=list(range(i, len(mc), nchunk)), tier=tier))
    r = seed % len(out)
    return out[r:] + out[:r]


def run_shard(sh):
    res = Result()
    tier = sh["tier"]
    if sh["part"] == "longrun":
        for order, ic in itertools.product((0, 1), (0, 1)):
            case = dict(part="longrun", z1=sh["z1"], ti=sh["ti"], nonprop=sh["nonprop"], order=order, ic=ic, tier=tier)
            for m in run_longrun(sh["z1"], sh["ti"], sh["nonprop"], order, ic, res):
                res.viol(case, m, kind="longrun")
        res.sample(dict(sh))
        return res
    if sh["part"] == "bvec":
        n = bvec_systems()[sh["sys"]][2].shape[0]
        for order, fname, icname in itertools.product((0, 1), forces(n, tier), ics(n, tier)):
            case = dict(part="bvec", sys=sh["sys"], order=order, force=fname, ic=icname, tier=tier)
            res.ev("bvec/%s/o%d/%s" % (sh["sys"], order, icname))
            for m in run_bvec(sh["sys"], order, fname, icname, tier, res):
                res.viol(case, m, kind=m.split(":")[0] + ("/" + m.split(":")[1].split()[0]))
        res.sample(case)
        return res
    if sh["part"] == "rfperms":
        for order in (0, 1):
            for m in run_rfperms(order, res):
                res.viol(dict(part="rfperms", order=order, tier=tier), m, kind="rfperms-" + m.split("(")[0].split(" with")[0])
        res.sample(dict(sh))
        return res
    if sh["part"] == "heavy":
        for order, icname in itertools.product((0, 1), ics(3, "quick")):
            for m in run_heavy(order, icname, res):
                res.viol(dict(part="heavy", order=order, ic=icname, tier=tier), m, kind="heavy-" + m.split(":")[0][:30])
        res.sample(dict(sh))
        return res
    if sh["part"] == "dtype":
        for solver, order, icname in itertools.product(("SolveExp1", "SolveExp2/diag", "SolveExp2/full", "SolveUnc/diag", "SolveUnc/full"), (0, 1),
                                                       ("none", "d0v0", "static")):
            case = dict(part="dtype", solver=solver, order=order, ic=icname, tier=tier)
            res.ev("dtype/%s/o%d/%s" % (solver, order, icname))
            for m in run_dtype(solver, order, icname, res):
                res.viol(case, m, kind="dtype-" + m.split(":")[0] + m.split(":")[1][:25])
        res.sample(case)
        return res
    if sh["part"] == "mc":
        mc = mc_systems(tier)
        for i in sh["idx"]:
            sd = mc[i]
            n = len(sd[4])
            for order, fname, icname in itertools.product((0, 1), forces(n, tier), ics(n, tier)):
                msgs = run_mc(sd, order, fname, icname, tier, res)
                res.ev("mc/%s/z%g-%g/wh%g/perm%s/o%d" % (sd[0], sd[1], sd[2], sd[3], "".join(map(str, sd[4])), order))
                case = {"part": "mc", "sys": i, "tier": tier, "order": order, "force": fname, "ic": icname, "def": list(sd)}
                for m in msgs:
                    res.viol(case, m, kind=m.split(":")[0] + ("/" + m.split(":")[1].split()[0]))
        res.sample(case)
        return res
    if sh["part"] == "modal":
        ms = modal_systems(tier)
        for i in sh["idx"]:
            modes = ms[i]
            n = len(modes)
            for order, fname, icname in itertools.product((0, 1), forces(n, tier), ics(n, tier)):
                if icname == "static" and not any(md["kind"] == "el" for md in modes):
                    continue
                msgs = run_modal(modes, order, fname, icname, tier, res)
                sig = modal_signature(modes, order, fname, icname)
                res.ev("modal/" + "+".join(md["name"].split("@")[0] for md in modes) + "/o%d" % order, outcome=sig)
                case = {"part": "modal", "sys": i, "tier": tier, "order": order, "force": fname, "ic": icname,
                        "modes": [md["name"] for md in modes]}
                for m in msgs:
                    res.viol(case, m, kind=m.split(":")[0] + ("/" + m.split(":")[1].split()[0]))
        res.sample(case)
    else:
        cs = coupled_systems(tier)
        for i in sh["idx"]:
            name, modes, ti, nonprop = cs[i]
            n = len(modes)
            for order, fname, icname in itertools.product((0, 1), forces(n, tier), ics(n, tier)):
                msgs = run_coupled(name, modes, ti, nonprop, order, fname, icname, tier, res)
                res.ev("coupled/%s/%s/np%d/o%d/%s" % (name, "+".join(md["name"].split("@")[0] for md in modes), nonprop, order,
                                                   "ic" if icname != "none" else "noic"))
                case = {"part": "coupled", "sys": i, "tier": tier, "order": order, "force": fname, "ic": icname,
                        "modes": [md["name"] for md in modes], "T": ti, "nonprop": nonprop}
                for m in msgs:
                    res.viol(case, m, kind=m.split(":")[0] + ("/" + m.split(":")[1].split()[0]))
        res.sample(case)
    return res


def replay(case):
    res = Result()
    tier = case["tier"]
    if case["part"] == "longrun":
        return run_longrun(case["z1"], case["ti"], case["nonprop"], case["order"], case["ic"], res)
    if case["part"] == "bvec":
        return run_bvec(case["sys"], case["order"], case["force"], case["ic"], tier, res)
    if case["part"] == "dtype":
        return run_dtype(case["solver"], case["order"], case["ic"], res)
    if case["part"] == "rfperms":
        return run_rfperms(case["order"], res)
    if case["part"] == "heavy":
        return run_heavy(case["order"], case["ic"], res)
    if case["part"] == "mc":
        return run_mc(mc_systems(tier)[case["sys"]], case["order"], case["force"], case["ic"], tier, res)
    if case["part"] == "modal":
        modes = modal_systems(tier)[case["sys"]]
        return run_modal(modes, case["order"], case["force"], case["ic"], tier, res)
    name, modes, ti, nonprop = coupled_systems(tier)[case["sys"]]
    return run_coupled(name, modes, ti, nonprop, case["order"], case["force"], case["ic"], tier, res)
