"""C17 - approximate solvers (SolveNewmark, SolveCDF / cd_as_force) follow their
documented recurrences exactly, converge under step halving, stay bounded,
handle massless DOF.  K1 grid; oracles R2 (transcriptions of the docstrings)
and R1 (mpmath exact response for the convergence ladders)."""
import itertools
import math
import warnings

import numpy as np

from vf.core import Result

PROP = "C17"
LEVEL = "model_checking"
RULE = (
    "full product: Newmark: mass form {None,1-D,diag 2-D,full,singular(massless DOF)} x damping/stiffness form {diag,full} "
    "x h ladder x force histories (nt 2,3,7) x ICs x rf partition {none,last,middle} x nonlinear terms {none, cubic "
    "spring, two terms with args, velocity-dependent via d[:, -1] slot}, compared (1e-11) with a transcription of the "
    "documented three-point recurrence incl. start-up u_-1, F_-1, F_0, 1/3 force average, extrapolated last step and "
    "central differences; CDF: layouts x order x IC vs a transcription of eqs (1),(2) with exact per-mode coefficients "
    "from mpmath; diagonal-damping CDF == SolveUnc; convergence ladders h..h/16 against the exact solution; boundedness "
    "over 200 steps for h*w up to 1e3.  signature = solver/forms/partition/nonlinearity"
)
ASSUMPTIONS = [
    "recurrences are transcribed from the class docstrings (vf/checks/c17.py: ref_newmark, ref_cdf)",
    "convergence is decided on a 5-level ladder (ratios >= 1.8 first order, >= 3.5 second order), not asymptotically",
]
EPS = 2.220446049250313e-16


def bounds(tier):
    return {"quick": "h in {0.01, 0.1}; 2 force histories; 3 IC forms", "thorough": "h in {1e-3,0.01,0.1,1}; 3 force histories; 4 IC forms"}.get(tier, "")


# ------------------------------------------------------------------ Newmark transcription
def ref_newmark(M, B, K, h, F, d0, v0, rf, nonlin):
    """documented recurrence on the non-rf DOF; rf rows static.  nonlin: list of (func, T, args)"""
    n = K.shape[0]
    nt = F.shape[1]
    rf = list(rf)
    k = [i for i in range(n) if i not in rf]
    d = np.zeros((n, nt))
    v = np.zeros((n, nt))
    a = np.zeros((n, nt))
    if rf:
        d[rf] = np.linalg.solve(K[np.ix_(rf, rf)], F[rf])
    if not k:
        return d, v, a, {}
    ix = np.ix_(k, k)
    Mk, Bk, Kk = M[ix], B[ix], K[ix]
    A = Mk / h ** 2 + Bk / (2 * h) + Kk / 3
    A1 = 2 * Mk / h ** 2 - Kk / 3
    A0 = -Mk / h ** 2 + Bk / (2 * h) - Kk / 3
    u0 = np.zeros(len(k)) if d0 is None else np.asarray(d0, float)[k]
    w0 = np.zeros(len(k)) if v0 is None else np.asarray(v0, float)[k]
    um1 = u0 - w0 * h
    Fk = F[k].copy()
    Fm1 = Kk @ um1 + Bk @ w0
    Fk[:, 0] = Kk @ u0 + Bk @ w0
    U = np.zeros((len(k), nt + 1))  # columns 0..nt-1 and the extra extrapolated step
    U[:, 0] = u0
    zs = {}
    # the nonlinear functions see the displacement matrix with u_-1 in the last column
    Dview = np.zeros((len(k), nt))
    Dview[:, 0] = u0
    Dview[:, -1] = um1

    def N(j):
        tot = np.zeros(len(k))
        for key, (func, T, args) in nonlin.items():
            z = np.atleast_1d(func(Dview, j, h, **args))
            zs.setdefault(key, np.zeros((z.shape[0], nt)))[:, j] = z
            tot = tot + T @ z
        return tot

    for j in range(1, nt + 1):
        # A u_j = (F_j + F_{j-1} + F_{j-2})/3 + N_{j-1} + A1 u_{j-1} + A0 u_{j-2}
        if j < nt:
            fj = Fk[:, j]
        else:
            fj = 2 * Fk[:, nt - 1] - Fk[:, nt - 2] if nt >= 2 else Fk[:, nt - 1]
        fj1 = Fk[:, j - 1]
        fj2 = Fk[:, j - 2] if j >= 2 else Fm1
        uj1 = U[:, j - 1]
        uj2 = U[:, j - 2] if j >= 2 else um1
        rhs = (fj + fj1 + fj2) / 3 + (N(j - 1) if nonlin else 0.0) + A1 @ uj1 + A0 @ uj2
        U[:, j] = np.linalg.solve(A, rhs)
        if j < nt:
            Dview[:, j] = U[:, j]
    d[k] = U[:, :nt]
    V = np.zeros((len(k), nt))
    Acc = np.zeros((len(k), nt))
    V[:, 0] = w0
    Acc[:, 0] = (U[:, 1] - 2 * u0 + um1) / h ** 2
    for j in range(1, nt):
        V[:, j] = (U[:, j + 1] - U[:, j - 1]) / (2 * h)
        Acc[:, j] = (U[:, j + 1] - 2 * U[:, j] + U[:, j - 1]) / h ** 2
    v[k] = V
    a[k] = Acc
    return d, v, a, zs


def nl_cubic(d, j, h, kc=50.0):
    return np.array([-kc * d[0, j] ** 3])


def nl_gap(d, j, h, gap=0.01, kg=200.0):
    x = d[1, j] - d[0, j]
    return np.array([kg * max(0.0, x - gap), -kg * max(0.0, x - gap)])


def nl_velo(d, j, h, c=3.0):
    vj = (d[:, j] - d[:, j - 1]) / h
    return -c * vj * np.abs(vj)


def nl_time(d, j, h, w=9.0, kt=25.0):
    """explicitly time dependent (uses the step number it is called with, not only d[:, j])"""
    return np.array([-kt * math.cos(w * j * h) * d[0, j] + 0.3 * j * h])


def nonlin_sets(n):
    T1 = np.zeros((n, 1))
    T1[0, 0] = 1.0
    T2 = np.zeros((n, 2))
    T2[0, 0] = 1.0
    T2[min(1, n - 1), 1] = 1.0
    out = {"none": {}, "cubic": {"cub": (nl_cubic, T1)}}
    if n >= 2:
        out["two+args"] = {"cub": (nl_cubic, T1, {"kc": 20.0}), "gap": (nl_gap, T2, {"gap": 0.005, "kg": 150.0})}
    out["velocity"] = {"vel": (nl_velo, np.eye(n), {"c": 2.0})}
    out["time"] = {"tim": (nl_time, T1), "cub": (nl_cubic, T1, {"kc": 10.0})}
    return out


def nm_systems():
    """(name, M, B, K) with M possibly None"""
    kd = np.array([40.0, 250.0, 900.0])
    bd = np.array([0.8, 2.5, 9.0])
    md = np.array([1.0, 2.0, 0.5])
    Kf = np.array([[340.0, -90.0, 0.0], [-90.0, 500.0, -160.0], [0.0, -160.0, 900.0]])
    Bf = np.array([[1.2, -0.3, 0.0], [-0.3, 2.5, -0.8], [0.0, -0.8, 4.0]])
    Mf = np.array([[1.0, 0.1, 0.0], [0.1, 2.0, 0.2], [0.0, 0.2, 0.5]])
    Ms = np.diag([1.0, 0.0, 0.5])  # massless middle DOF
    out = []
    for mname, M in (("mNone", None), ("m1d", md), ("m2diag", np.diag(md)), ("mfull", Mf), ("msingular", Ms)):
        for bname, B in (("bdiag", bd), ("bfull", Bf)):
            for kname, K in (("kdiag", kd), ("kfull", Kf)):
                out.append(("%s/%s/%s" % (mname, bname, kname), M, B, K))
    return out


def full(X, n):
    if X is None:
        return np.eye(n)
    X = np.asarray(X, float)
    return np.diag(X) if X.ndim == 1 else X


def nm_forces(tier):
    base = np.array([[1.0, -2.0, 0.5, 3.0, -1.0, 2.0, 0.3], [0.5, 0.5, -1.5, 2.0, 0.25, -3.0, 1.0], [-2.0, 1.0, 1.0, -0.5, 4.0, 0.0, -1.0]]) * 10
    out = {"nt7": base, "nt2": base[:, :2]}
    if tier != "quick":
        out["nt3"] = base[:, 2:5]
    return out


def nm_ics(tier):
    d0 = np.array([0.05, -0.02, 0.03])
    v0 = np.array([-0.5, 0.8, 0.2])
    out = {"none": (None, None), "d0v0": (d0, v0), "d0": (d0, None)}
    if tier != "quick":
        out["v0"] = (None, v0)
    return out


def check_newmark(sysname, M, B, K, h, fname, icname, rfname, nlname, tier, res):
    from pyyeti import ode

    msgs = []
    n = 3
    F = nm_forces(tier)[fname]
    d0, v0 = nm_ics(tier)[icname]
    rf = {"norf": [], "rflast": [2], "rfmid": [1], "rf2": [1, 2], "rf2rev": [2, 1], "rf2split": [0, 2], "rf2splitrev": [2, 0]}[rfname]
    if rf and (sysname.startswith("msingular") or nlname != "none"):
        return msgs, False
    if rf and ("full" in sysname):
        # rf partitions are a modal-space notion: only with diagonal matrices
        return msgs, False
    Mf, Bf, Kf = full(M, n), full(B, n), full(K, n)
    nl = nonlin_sets(n)[nlname]
    nlref = {k: (v[0], v[1], v[2] if len(v) > 2 else {}) for k, v in nl.items()}
    d, v, a, zs = ref_newmark(Mf, Bf, Kf, h, F, d0, v0, rf, nlref)
    try:
        with warnings.catch_warnings():
            warnings.simplefilter("ignore")
            ts = ode.SolveNewmark(M, B, K, h, rf=rf if rf else None)
            if nl:
                ts.def_nonlin(nl)
            sol = ts.tsolve(F.copy(), d0=d0, v0=v0)
    except Exception as e:  # noqa
        return ["SolveNewmark raised %r" % (e,)], True
    for nm, x, xr in (("d", sol.d, d), ("v", sol.v, v), ("a", sol.a, a)):
        sc = max(np.abs(xr).max(), 1e-300)
        e = np.abs(x - xr).max() / sc
        res.err("newmark_vs_transcription", e)
        if not e <= 1e-10:
            msgs.append("SolveNewmark %s differs from the documented recurrence: rel err %.3g" % (nm, e))
    if nl:
        for key, z in zs.items():
            zz = sol.z[key]
            sc = max(np.abs(z).max(), 1e-300)
            if zz.shape != z.shape or not np.abs(zz - z).max() / sc <= 1e-9:
                msgs.append("SolveNewmark z['%s'] (nonlinear function outputs) differs from the documented evaluation" % key)
    if not np.array_equal(sol.t, h * np.arange(F.shape[1])):
        msgs.append("SolveNewmark time vector wrong")
    try:
        with warnings.catch_warnings():
            warnings.simplefilter("ignore")
            again = ts.tsolve(F.copy(), d0=d0, v0=v0)
        if not all(np.array_equal(getattr(again, nm), getattr(sol, nm)) for nm in "dva"):
            msgs.append("SolveNewmark instance reused for a second identical tsolve gives a different answer")
        # a different load case of the same length on the same object: equals a fresh object's answer, and the
        # solution returned earlier (d, v, a and the nonlinear outputs z) is left untouched
        snap = {nm: np.array(getattr(sol, nm)) for nm in "dva"}
        zsnap = {k: np.array(z) for k, z in sol.z.items()} if nl else {}
        F2 = (F[:, ::-1] * 0.5).copy()
        with warnings.catch_warnings():
            warnings.simplefilter("ignore")
            second = ts.tsolve(F2.copy(), d0=d0, v0=v0)
            ts2 = ode.SolveNewmark(M, B, K, h, rf=rf if rf else None)
            if nl:
                ts2.def_nonlin(nl)
            fresh = ts2.tsolve(F2.copy(), d0=d0, v0=v0)
        if not all(np.array_equal(getattr(second, nm), getattr(fresh, nm)) for nm in "dva") or (nl and any(not np.array_equal(second.z[k], fresh.z[k]) for k in fresh.z)):
            msgs.append("SolveNewmark instance reused for another load case gives a different answer than a fresh instance")
        if not all(np.array_equal(getattr(sol, nm), snap[nm]) for nm in "dva") or any(not np.array_equal(sol.z[k], zsnap[k]) for k in zsnap):
            msgs.append("the solution returned by an earlier tsolve was modified by a later tsolve on the same SolveNewmark object")
    except Exception as e:  # noqa
        msgs.append("SolveNewmark reuse raised %r" % (e,))
    return msgs, True


# ------------------------------------------------------------------ CDF transcription
def exact_coefs(m, b, k, h, order):
    """per-mode F,G,A,B,Fp,Gp,Ap,Bp from the exact (mpmath) one-step matrices - independent of get_su_coef"""
    from vf.ref import ode_ref

    n = len(m)
    out = np.zeros((8, n))
    for i in range(n):
        A = np.array([[-b[i] / m[i], -k[i] / m[i]], [1.0, 0.0]])
        Bm = np.array([[1.0 / m[i]], [0.0]])
        E, G0, G1 = ode_ref.step_matrices(A, Bm, h, 1, dps=40)
        E = np.array([[float(E[r, c]) for c in range(2)] for r in range(2)])
        g0 = np.array([float(G0[r, 0]) for r in range(2)])
        g1 = np.array([float(G1[r, 0]) for r in range(2)])
        # y = [v, d]; y1 = E y0 + G0 u0 + G1 (u1-u0) = E y0 + (G0-G1) u0 + G1 u1
        Fd, Gd = E[1, 1], E[1, 0]
        Fp, Gp = E[0, 1], E[0, 0]
        if order == 1:
            Ad, Bd = g0[1] - g1[1], g1[1]
            Ap, Bp = g0[0] - g1[0], g1[0]
        else:
            Ad, Bd = g0[1], 0.0
            Ap, Bp = g0[0], 0.0
        out[:, i] = (Fd, Gd, Ad, Bd, Fp, Gp, Ap, Bp)
    return out


def ref_cdf(m, Bfull, k, h, F, d0, v0, order, rf, static):
    n = len(k)
    nt = F.shape[1]
    kk = [i for i in range(n) if i not in rf]
    d = np.zeros((n, nt))
    v = np.zeros((n, nt))
    a = np.zeros((n, nt))
    if rf:
        d[rf] = F[rf] / k[rf][:, None]
    mk, kd = m[kk], k[kk]
    Bk = Bfull[np.ix_(kk, kk)]
    bd = np.diag(Bk).copy()
    Cod = Bk - np.diag(bd)
    # rigid-body rows (k == 0): exact coefficients still apply (second-order system with k=0)
    Fd, Gd, Ad, Bd, Fp, Gp, Ap, Bp = exact_coefs(mk, bd, kd, h, 1)
    q = np.zeros(len(kk)) if d0 is None else np.asarray(d0, float)[kk].copy()
    qd = np.zeros(len(kk)) if v0 is None else np.asarray(v0, float)[kk].copy()
    if static and d0 is None:
        el = kd != 0
        q[el] = F[kk, 0][el] / kd[el]
    D = np.zeros((len(kk), nt))
    V = np.zeros((len(kk), nt))
    D[:, 0], V[:, 0] = q, qd
    I = np.eye(len(kk))
    if order == 0:
        # zero-order hold: P_{i+1} := P_i in eqs (1),(2) for the applied force AND the damping force Q_i? The code keeps
        # the implicit Q_{i+1}; documented equations are written for order 1; order 0 uses (A+B) P_i
        pass
    for i in range(nt - 1):
        P0 = F[kk, i]
        P1 = F[kk, i + 1] if order == 1 else F[kk, i]
        Q0 = Cod @ V[:, i]
        if order == 1:
            vpart = Fp * D[:, i] + Gp * V[:, i] + Ap * (P0 - Q0) + Bp * P1
        else:
            vpart = Fp * D[:, i] + Gp * V[:, i] + (Ap + Bp) * P0 - Ap * Q0
        V[:, i + 1] = np.linalg.solve(I + Bp[:, None] * Cod, vpart)
        Q1 = Cod @ V[:, i + 1]
        if order == 1:
            D[:, i + 1] = Fd * D[:, i] + Gd * V[:, i] + Ad * (P0 - Q0) + Bd * (P1 - Q1)
        else:
            D[:, i + 1] = Fd * D[:, i] + Gd * V[:, i] + (Ad + Bd) * P0 - Ad * Q0 - Bd * Q1
    d[kk], v[kk] = D, V
    a[kk] = (F[kk] - Bk @ V - kd[:, None] * D) / mk[:, None]
    return d, v, a


def cdf_systems():
    out = []
    for layout in ("el3", "rb+el2", "el2+rf", "rb+el+rf"):
        if layout == "el3":
            m, k, bd, rf = [1.0, 2.0, 0.5], [40.0, 250.0, 900.0], [0.8, 2.5, 3.0], []
        elif layout == "rb+el2":
            m, k, bd, rf = [2.0, 1.0, 0.5], [0.0, 250.0, 900.0], [0.0, 2.5, 3.0], []
        elif layout == "el2+rf":
            m, k, bd, rf = [1.0, 2.0, 1.0], [40.0, 250.0, 4.0e5], [0.8, 2.5, 0.0], [2]
        else:
            m, k, bd, rf = [2.0, 1.0, 1.0], [0.0, 250.0, 4.0e5], [0.0, 2.5, 0.0], [2]
        n = 3
        B = np.diag(bd)
        nr = [i for i in range(n) if i not in rf]
        for i in nr:
            for j in nr:
                if i != j:
                    B[i, j] = 0.15 * (1 + 0.5 * abs(i - j))
        out.append((layout, np.array(m), B, np.array(k), rf))
    return out


def check_cdf(layout, m, B, k, rf, h, order, fname, icname, tier, res):
    from pyyeti import ode

    msgs = []
    F = nm_forces(tier)[fname]
    ic = dict(nm_ics(tier), static=("static", None))
    if icname == "static":
        d0 = v0 = None
        static = True
    else:
        d0, v0 = nm_ics(tier)[icname]
        static = False
    ref = ref_cdf(m, B, k, h, F, d0, v0, order, rf, static)
    sols = {}
    for tag, make in (("SolveCDF", lambda: ode.SolveCDF(m, B, k, h, rf=rf if rf else None, order=order)),
                      ("SolveUnc(cd_as_force)", lambda: ode.SolveUnc(m, B, k, h, rf=rf if rf else None, order=order, cd_as_force=True))):
        try:
            with warnings.catch_warnings():
                warnings.simplefilter("ignore")
                sol = make().tsolve(F.copy(), d0=d0, v0=v0, static_ic=static)
        except Exception as e:  # noqa
            msgs.append("%s raised %r" % (tag, e))
            continue
        sols[tag] = sol
        nr = [i for i in range(len(k)) if i not in rf]
        wmax = math.sqrt(max(k[nr] / m[nr]))
        sd = max(np.abs(ref[0]).max(), 1e-300)
        sv = max(np.abs(ref[1]).max(), wmax * sd)
        sa = max(np.abs(ref[2]).max(), wmax * sv)
        for nm, x, xr, sc in (("d", sol.d, ref[0], sd), ("v", sol.v, ref[1], sv), ("a", sol.a, ref[2], sa)):
            e = np.abs(x - xr).max() / sc
            wmin = math.sqrt(min(x_ for x_ in k[nr] / m[nr] if x_ > 0))
            tolc = 1e-10 * max(1.0, (0.05 / (wmin * h)) ** 3)  # get_su_coef conditioning grade, as in C01
            res.err("cdf_vs_transcription_over_tol", e / tolc)
            if not e <= tolc:
                msgs.append("%s %s differs from the documented coupled-damping-force recurrence: rel err %.3g" % (tag, nm, e))
    # a solver object is reusable: a second solve on the same instance equals a solve on a fresh instance
    d0b = np.array([0.03, -0.01, 0.02])
    v0b = np.array([0.4, -0.6, 0.1])
    try:
        with warnings.catch_warnings():
            warnings.simplefilter("ignore")
            used = ode.SolveCDF(m, B, k, h, rf=rf if rf else None, order=order)
            used.tsolve(F.copy(), d0=d0, v0=v0, static_ic=static)
            again = used.tsolve(F[:, ::-1].copy(), d0=d0b, v0=v0b)
            fresh = ode.SolveCDF(m, B, k, h, rf=rf if rf else None, order=order).tsolve(F[:, ::-1].copy(), d0=d0b, v0=v0b)
        if not all(np.array_equal(getattr(again, nm), getattr(fresh, nm)) for nm in "dva"):
            msgs.append("SolveCDF instance reused for a second tsolve gives a different answer than a fresh instance")
    except Exception as e:  # noqa
        msgs.append("SolveCDF reuse raised %r" % (e,))
    if len(sols) == 2:
        a_, b_ = sols["SolveCDF"], sols["SolveUnc(cd_as_force)"]
        if not (np.array_equal(a_.d, b_.d) and np.array_equal(a_.v, b_.v) and np.array_equal(a_.a, b_.a)):
            msgs.append("SolveCDF and SolveUnc(cd_as_force=True) differ")
    # diagonal damping: SolveCDF is SolveUnc
    Bd = np.diag(np.diag(B))
    try:
        s1 = ode.SolveCDF(m, Bd, k, h, rf=rf if rf else None, order=order).tsolve(F.copy(), d0=d0, v0=v0, static_ic=static)
        s2 = ode.SolveUnc(m, np.diag(B).copy(), k, h, rf=rf if rf else None, order=order).tsolve(F.copy(), d0=d0, v0=v0, static_ic=static)
        for nm in "dva":
            x, y = getattr(s1, nm), getattr(s2, nm)
            if not np.abs(x - y).max() <= 1e-13 * max(np.abs(y).max(), 1e-300):
                msgs.append("with diagonal damping SolveCDF differs from SolveUnc in %s" % nm)
    except Exception as e:  # noqa
        msgs.append("diagonal-damping SolveCDF/SolveUnc raised %r" % (e,))
    return msgs


# ------------------------------------------------------------------ convergence and boundedness
def check_convergence(tier, res):
    from pyyeti import ode
    from vf.ref import ode_ref

    out = []
    M = np.array([[1.0, 0.1], [0.1, 2.0]])
    K = np.array([[300.0, -80.0], [-80.0, 500.0]])
    B = np.array([[1.5, -0.4], [-0.4, 2.5]])
    T = 0.32
    u0 = np.array([0.02, -0.01])
    w0 = np.array([0.3, -0.2])

    def force(t):
        return np.vstack((8 * np.sin(9 * t) + 3.0, -5 * np.cos(4 * t)))

    for consistent in (False, True):
        errs = []
        for lev in range(5):
            h = 0.02 / 2 ** lev
            nt = int(round(T / h)) + 1
            t = h * np.arange(nt)
            F = force(t)
            if consistent:
                F = F - F[:, :1] + (K @ u0 + B @ w0)[:, None] * np.ones((1, nt)) * 0 + 0  # keep shape
                F = force(t) - force(np.array([0.0])) + (K @ u0 + B @ w0)[:, None]
            sol = ode.SolveNewmark(M, B, K, h).tsolve(F, d0=u0, v0=w0)
            # exact solution of the piecewise-linear force on the finest grid is not the target: use smooth force via tiny step
            hf = h / 8
            ntf = (nt - 1) * 8 + 1
            tf = hf * np.arange(ntf)
            Ff = force(tf)
            if consistent:
                Ff = force(tf) - force(np.array([0.0])) + (K @ u0 + B @ w0)[:, None]
            dref = ode.SolveExp2(M, B, K, hf).tsolve(Ff, d0=u0, v0=w0).d[:, ::8]
            errs.append(np.abs(sol.d - dref).max() / np.abs(dref).max())
        ratios = [errs[i] / errs[i + 1] for i in range(4)]
        res.ev("convergence/newmark/consistent%d" % consistent)
        res.err("newmark_err_finest_consistent%d" % consistent, errs[-1])
        need = 3.5 if consistent else 1.8
        if not all(r >= need for r in ratios[1:]) or not errs[-1] < errs[0]:
            out.append((dict(part="conv", solver="newmark", consistent=consistent),
                        "SolveNewmark error ratios under step halving %s (errors %s) are below %.1f" % (np.round(ratios, 2).tolist(), errs, need)))
    # CDF: error against the exact solution shrinks under halving
    m = np.array([1.0, 2.0, 0.5])
    k = np.array([40.0, 250.0, 900.0])
    Bc = np.array([[0.8, 0.3, 0.1], [0.3, 2.5, 0.4], [0.1, 0.4, 3.0]])
    errs = []
    for lev in range(5):
        h = 0.02 / 2 ** lev
        nt = int(round(T / h)) + 1
        t = h * np.arange(nt)
        F = np.vstack((8 * np.sin(9 * t), -5 * np.cos(4 * t), 3 * np.sin(15 * t)))
        s1 = ode.SolveCDF(m, Bc, k, h).tsolve(F)
        s2 = ode.SolveExp2(m, Bc, k, h).tsolve(F)
        errs.append(np.abs(s1.d - s2.d).max() / np.abs(s2.d).max())
    ratios = [errs[i] / errs[i + 1] for i in range(4)]
    res.ev("convergence/cdf")
    res.err("cdf_err_finest", errs[-1])
    if not all(r >= 1.8 for r in ratios):
        out.append((dict(part="conv", solver="cdf"), "SolveCDF error vs the exact solution does not shrink under step halving: ratios %s" % np.round(ratios, 2).tolist()))
    # boundedness of Newmark for any step on damped systems
    for hw in (0.1, 1.0, 10.0, 100.0, 1000.0):
        for msing in (False, True):
            Mx = np.diag([1.0, 0.0 if msing else 2.0])
            Kx = np.array([[400.0, -100.0], [-100.0, 300.0]])
            Bx = np.array([[2.0, -0.5], [-0.5, 1.5]])
            wmax = math.sqrt(np.abs(np.linalg.eigvals(np.linalg.solve(Mx + (np.diag([0, 1.0]) if msing else 0), Kx))).max())
            h = hw / wmax
            nt = 200
            F = np.zeros((2, nt))
            F[:, :3] = [[5.0], [-3.0]]
            sol = ode.SolveNewmark(Mx, Bx, Kx, h).tsolve(F, d0=np.array([0.1, -0.05]), v0=np.array([1.0, 0.5]))
            res.ev("bounded/hw%g/msing%d" % (hw, msing))
            early = np.abs(sol.d[:, :20]).max()
            late = np.abs(sol.d[:, -20:]).max()
            if not (np.all(np.isfinite(sol.d)) and late <= 10 * max(early, 0.1)):
                out.append((dict(part="bounded", hw=hw, msing=msing), "SolveNewmark response grows (h*w=%g): early max %.3g, late max %.3g" % (hw, early, late)))
    return out


# ------------------------------------------------------------------ driver
def check_rf_orders(res):
    """residual-flexibility DOF listed in ANY order (contiguous blocks in non-ascending order, split blocks): every
    listing gives the result of the sorted listing, and the rf rows solve K d = F"""
    from pyyeti import ode

    msgs = []
    m = np.array([1.0, 2.0, 1.0, 1.0, 1.0, 0.5])
    k = np.array([40.0, 250.0, 4.0e5, 9.0e5, 2.5e6, 900.0])
    b = np.array([0.8, 2.5, 0.0, 0.0, 0.0, 3.0])
    F = np.cos(np.arange(6)[:, None] * 0.7 + np.arange(7)[None, :] * 0.9) * np.array([1.0, 2.0, 300.0, -500.0, 800.0, 1.5])[:, None]
    blocks = [[2, 3, 4], [2, 3], [3, 4], [2, 4]]
    makers = {"SolveNewmark": lambda rf: ode.SolveNewmark(m, b, k, 0.01, rf=rf), "SolveCDF/o0": lambda rf: ode.SolveCDF(m, b, k, 0.01, rf=rf, order=0),
              "SolveCDF/o1": lambda rf: ode.SolveCDF(m, b, k, 0.01, rf=rf, order=1), "SolveUnc/o1": lambda rf: ode.SolveUnc(m, b, k, 0.01, rf=rf, order=1),
              "SolveExp2/o1": lambda rf: ode.SolveExp2(m, b, k, 0.01, rf=rf, order=1)}
    for name, mk in makers.items():
        for blk in blocks:
            try:
                base = mk(list(blk)).tsolve(F.copy())
            except Exception as e:  # noqa
                msgs.append("%s(rf=%s) raised %r" % (name, blk, e))
                continue
            if not np.allclose(base.d[blk] * k[blk, None], F[blk], rtol=1e-12, atol=0):
                msgs.append("%s(rf=%s): residual-flexibility rows do not satisfy K d = F" % (name, blk))
            for perm in itertools.permutations(blk):
                if list(perm) == list(blk):
                    continue
                for form in ("list", "array"):
                    rf = list(perm) if form == "list" else np.array(perm)
                    res.ev("rf-order/%s/n%d" % (name, len(blk)))
                    try:
                        sol = mk(rf).tsolve(F.copy())
                    except Exception as e:  # noqa
                        msgs.append("%s(rf=%s as %s) raised %r" % (name, list(perm), form, e))
                        continue
                    if not all(np.array_equal(getattr(sol, nm), getattr(base, nm)) for nm in "dva"):
                        msgs.append("%s with rf listed as %s gives a different response than rf=%s (max |d| diff %.3g)" % (name, list(perm), blk, np.abs(sol.d - base.d).max()))
    return msgs


def check_forms(res):
    """integer-typed / list / Fortran-ordered / strided force histories holding the same values give the response of the
    float64 C-ordered history bit for bit (Newmark with and without nonlinear terms and rf modes, CDF both orders), and
    the caller's arrays are not modified"""
    from pyyeti import ode

    msgs = []
    Fi = np.array([[1, -2, 0, 3, -1, 2], [0, 1, -1, 2, 4, -3], [-2, 1, 1, 0, 3, 0]], dtype=np.int64)
    big = np.zeros((2 * Fi.shape[0], 2 * Fi.shape[1] + 1))
    big[::2, 1::2] = Fi
    forms = {"int64": Fi, "int32": Fi.astype(np.int32), "int8": Fi.astype(np.int8), "list": Fi.tolist(),
             "fortran": np.asfortranarray(Fi.astype(float)), "strided": big[::2, 1::2]}
    d0, v0 = np.array([0.1, -0.2, 0.05]), np.array([-3.0, 2.0, 1.0])
    makers = {}
    for name, M, B, K in nm_systems():
        if name.split("/")[0] in ("m1d", "mfull", "msingular"):
            makers["newmark/" + name] = (lambda M=M, B=B, K=K: ode.SolveNewmark(M, B, K, 0.01))
            makers["newmark+rf/" + name] = (lambda M=M, B=B, K=K: ode.SolveNewmark(M, B, K, 0.01, rf=[2]))
    def nl():
        ts = ode.SolveNewmark(np.array([1.0, 2.0, 0.5]), np.array([0.8, 2.5, 9.0]), np.array([40.0, 250.0, 900.0]), 0.01)
        ts.def_nonlin({"cubic": (lambda d, j, h: -50.0 * d[[0], j] ** 3, np.array([[1.0], [0.0], [-1.0]]), {})})
        return ts
    makers["newmark/nonlin"] = nl
    for layout, m, B, k, rf in cdf_systems():
        for order in (0, 1):
            makers["cdf/%s/o%d" % (layout, order)] = (lambda m=m, B=B, k=k, rf=rf, order=order: ode.SolveCDF(m, B, k, 0.01, rf=rf or None, order=order))
    for mname, mk in makers.items():
        for ic in (False, True):
            if ic and "msingular" in mname:
                continue
            kw = dict(d0=d0, v0=v0) if ic else {}
            try:
                base = mk().tsolve(Fi.astype(float), **kw)
            except Exception as e:  # noqa
                msgs.append("%s: raised %r for the float64 force" % (mname, e))
                continue
            res.ev("forms/%s/ic%d" % (mname, ic))
            for fn, Fx in forms.items():
                snap = None if isinstance(Fx, list) else Fx.copy()
                try:
                    sol = mk().tsolve(Fx, **kw)
                except Exception as e:  # noqa
                    msgs.append("%s: tsolve raised %r for a force given as %s" % (mname, e, fn))
                    continue
                for nm in "dva":
                    x, y = getattr(sol, nm), getattr(base, nm)
                    if x.dtype != y.dtype or x.shape != y.shape or not np.array_equal(x, y):
                        msgs.append("%s: force given as %s: %s differs from the response to the same values as float64 (dtype %s)" % (mname, fn, nm, x.dtype))
                        break
                if snap is not None and not (Fx.dtype == snap.dtype and np.array_equal(Fx, snap)):
                    msgs.append("%s: tsolve modified the caller's force array (%s)" % (mname, fn))
    return msgs


def shards(tier, seed):
    hsv = [0.01, 0.1] if tier == "quick" else [1e-3, 0.01, 0.1, 1.0]
    out = []
    for si in range(len(nm_systems())):
        out.append(dict(part="newmark", sys=si, hs=hsv, tier=tier))
    for ci in range(len(cdf_systems())):
        out.append(dict(part="cdf", sys=ci, hs=hsv, tier=tier))
    out.append(dict(part="conv", tier=tier))
    out.append(dict(part="forms", tier=tier))
    out.append(dict(part="rforders", tier=tier))
    r = seed % len(out)
    return out[r:] + out[:r]


def run_shard(sh):
    res = Result()
    tier = sh["tier"]
    if sh["part"] == "newmark":
        name, M, B, K = nm_systems()[sh["sys"]]
        for h, fname, icname, rfname, nlname in itertools.product(sh["hs"], nm_forces(tier), nm_ics(tier), ("norf", "rflast", "rfmid", "rf2", "rf2rev", "rf2split", "rf2splitrev"),
                                                                   nonlin_sets(3)):
            msgs, ran = check_newmark(name, M, B, K, h, fname, icname, rfname, nlname, tier, res)
            if not ran:
                continue
            res.ev("newmark/%s/%s/%s" % (name, rfname, nlname), outcome="%s%g%s%s" % (name, h, fname, icname))
            case = dict(part="newmark", sys=sh["sys"], h=h, force=fname, ic=icname, rf=rfname, nl=nlname, tier=tier)
            for m in msgs:
                res.viol(case, m, kind="nm-" + " ".join(m.split()[1:3]))
        res.sample(case)
    elif sh["part"] == "cdf":
        layout, m, B, k, rf = cdf_systems()[sh["sys"]]
        for h, order, fname, icname in itertools.product(sh["hs"], (0, 1), nm_forces(tier), list(nm_ics(tier)) + ["static"]):
            if icname == "static" and layout.startswith("rb") and False:
                continue
            msgs = check_cdf(layout, m, B, k, rf, h, order, fname, icname, tier, res)
            res.ev("cdf/%s/o%d/%s" % (layout, order, icname), outcome="%s%g%s" % (layout, h, fname))
            case = dict(part="cdf", sys=sh["sys"], h=h, order=order, force=fname, ic=icname, tier=tier)
            for msg in msgs:
                res.viol(case, msg, kind="cdf-" + " ".join(msg.split()[:3]))
        res.sample(case)
    elif sh["part"] == "rforders":
        for m in check_rf_orders(res):
            res.viol(dict(part="rforders", tier=tier), m, kind="rforders-" + m.split("(")[0].split(" with")[0])
        res.sample(dict(part="rforders"))
    elif sh["part"] == "forms":
        for m in check_forms(res):
            res.viol(dict(part="forms", tier=tier), m, kind="forms-" + m.split(":")[0] + m.split(":")[1][:24])
        res.sample(dict(part="forms"))
    else:
        for case, m in check_convergence(tier, res):
            res.viol(dict(tier=tier, **case), m, kind="conv-" + m.split()[0])
        res.sample(dict(part="conv"))
    return res


def replay(case):
    res = Result()
    tier = case["tier"]
    if case["part"] == "newmark":
        name, M, B, K = nm_systems()[case["sys"]]
        return check_newmark(name, M, B, K, case["h"], case["force"], case["ic"], case["rf"], case["nl"], tier, res)[0]
    if case["part"] == "cdf":
        layout, m, B, k, rf = cdf_systems()[case["sys"]]
        return check_cdf(layout, m, B, k, rf, case["h"], case["order"], case["force"], case["ic"], tier, res)
    if case["part"] == "forms":
        return check_forms(res)
    if case["part"] == "rforders":
        return check_rf_orders(res)
    return [m for c, m in check_convergence(tier, res) if all(c[k] == case.get(k) for k in c)]
