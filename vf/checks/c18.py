"""C18 - DOF-set partition vectors and index look-ups satisfy their defining
relations (K1, R2: pure-Python set model of the USET lattice)."""
import itertools
import warnings

import numpy as np

from vf.core import Result

PROP = "C18"
LEVEL = "model_checking"
RULE = (
    "EVERY assignment of the base sets {m,s,o,q,r,c,b,e} to 3 nodes (2 grids + 1 scalar point: 512 tables) and every "
    "per-DOF 6-letter string over {b,c,q,o,s} (3^6 quick, 5^6 thorough) for one grid; every ordered pair of set "
    "expressions over the 18 documented names and selected '+' unions; DOF requests in every form (1-D ids, (id, "
    "component) pairs, 123456-style lists, missing ids, permuted order) x strict{T,F}; locate helpers over all small "
    "integer matrices / index vectors / lists.  Oracle: pure-set model of the hierarchy (disjoint base sets, supersets = "
    "documented unions, minor-from-major length and order, refusal iff minor not within major) and the defining "
    "equations of each helper.  signature = table class / set pair / request form / helper"
)
ASSUMPTIONS = ["set hierarchy transcribed from the mksetpv/mkusetmask docstrings (diagram)"]
BASE = "msoqrcbe"
SUP = {"l": "cb", "t": "cbr", "a": "cbrq", "f": "cbrqo", "n": "cbrqos", "g": "cbrqosm", "p": "cbrqosme", "fe": "cbrqoe", "d": "cbrqe", "ne": "cbrqose"}
NAMES = list(BASE) + list(SUP)


def members(expr):
    out = set()
    for part in expr.split("+"):
        out |= set(SUP.get(part, part))
    return out


def bounds(tier):
    return {"quick": "512 node assignments, 3^6 per-DOF strings", "thorough": "512 node assignments, 5^6 per-DOF strings"}.get(tier, "")


def build_table(letters_g1, letter_sp, letters_g2, compact=()):
    """letters_g1/g2: 6 letters (per DOF) ; letter_sp: 1 letter.  returns (uset, list of (id, dof, letter)).
    compact: grid ids handed to make_uset in the one-row form [id, 123456] (needs uniform letters for that grid)"""
    from pyyeti.nastran import n2p

    rows = []
    dof, sets = [], []
    for gid, letters in ((10, letters_g1), (20, letter_sp), (30, letters_g2)):
        if len(letters) == 1 and gid == 20:
            dof.append([gid, 0])
            sets.append(letters)
            rows.append((gid, 0, letters))
        elif gid in compact:
            assert len(set(letters)) == 1
            dof.append([gid, 123456])
            sets.append(letters[0])
            rows.extend((gid, i + 1, ch) for i, ch in enumerate(letters))
        else:
            for i, ch in enumerate(letters):
                dof.append([gid, i + 1])
                sets.append(ch)
                rows.append((gid, i + 1, ch))
    uset = n2p.make_uset(np.array(dof), sets)
    return uset, rows


def check_table(uset, rows, res, pairs):
    from pyyeti.nastran import n2p

    msgs = []
    n = len(rows)
    letters = [r[2] for r in rows]
    snap = uset.values.copy()
    if [tuple(i) for i in uset.index] != [(r[0], r[1]) for r in rows]:
        return ["make_uset row order differs from the requested DOF order"]
    # 1. base sets are disjoint and cover
    cnt = np.zeros(n, int)
    for b in BASE:
        pv = n2p.mksetpv(uset, "p", b)
        want = np.array([l == b for l in letters])
        if pv.shape != (n,) or not np.array_equal(pv, want):
            msgs.append("base set %s: partition %s != %s" % (b, pv.astype(int).tolist(), want.astype(int).tolist()))
        cnt += pv
    if not np.all(cnt == 1):
        msgs.append("a DOF belongs to %s base sets" % cnt.tolist())
    # 2. supersets are the documented unions
    for s, mem in SUP.items():
        pv = n2p.mksetpv(uset, "p", s)
        want = np.array([l in mem for l in letters])
        if not np.array_equal(pv, want):
            msgs.append("superset %s is not the union of %s: %s" % (s, "+".join(mem), pv.astype(int).tolist()))
    # 3. minor from major
    for major, minor in pairs:
        M, m_ = members(major), members(minor)
        inmaj = [l in M for l in letters]
        inmin = [l in m_ for l in letters]
        contained = all(a or not b for a, b in zip(inmaj, inmin))
        try:
            pv = n2p.mksetpv(uset, major, minor)
        except ValueError as e:
            if contained:
                msgs.append("mksetpv(%s, %s) refused although the minor set is contained: %s" % (major, minor, e))
            continue
        if not contained:
            msgs.append("mksetpv(%s, %s) accepted a minor set that is not contained in the major set" % (major, minor))
            continue
        want = np.array([b for a, b in zip(inmaj, inmin) if a], dtype=bool)
        if pv.shape != want.shape or not np.array_equal(pv, want):
            msgs.append("mksetpv(%s, %s) = %s, expected %s" % (major, minor, pv.astype(int).tolist(), want.astype(int).tolist()))
        res.ev("setpv/%s" % ("contained" if contained else "refused"), n=0)
    # bitmask form == string form
    mask = n2p.mkusetmask()
    if not np.array_equal(n2p.mksetpv(uset, mask["g"], mask["a"]) if all(l in SUP["g"] or l not in SUP["a"] for l in letters) else True,
                          n2p.mksetpv(uset, "g", "a") if all(l in SUP["g"] or l not in SUP["a"] for l in letters) else True):
        msgs.append("integer bitmask form of mksetpv differs from the string form")
    if not np.array_equal(uset.values.astype(float), snap.astype(float), equal_nan=True):
        msgs.append("mksetpv modified the USET table")
    return msgs


def check_dofpv(uset, rows, res):
    from pyyeti.nastran import n2p

    msgs = []
    letters = [r[2] for r in rows]
    pos = {(r[0], r[1]): i for i, r in enumerate(rows)}
    requests = {
        "ids": [10, 30], "ids_rev": [30, 10], "pairs": [[30, 2], [10, 5], [20, 0]], "lists": [[10, 135], [30, 123456]], "single": [[10, 3]],
        "digits_desc": [[10, 421], [30, 654321]], "digits_rep": [[10, 11], [30, 363]],
        "missing_id": [10, 40], "missing_pair": [[10, 2], [40, 1]], "scalar_as_grid": [[20, 1]], "dup": [[10, 1], [10, 1]], "list0": [[20, 0], [10, 246]],
    }
    for req in ([[15, 421]], [[14, 654321], [12, 11]], [[7, 0], [9, 135], [9, 531]], [3, 8]):
        arr = np.array(req)
        if arr.ndim == 1:
            want = [[int(i), k] for i in arr for k in range(1, 7)]
        else:
            want = [[int(i), int(ch)] for i, c in arr for ch in str(int(c))]
        got = n2p.expanddof(arr)
        if np.asarray(got).tolist() != want:
            msgs.append("expanddof(%s) = %s, expected the components in the order given: %s" % (req, np.asarray(got).tolist(), want))
    # DOF tables given as plain [id, dof] arrays: ids non-decreasing with the components of an id in ANY order, ids in any
    # order; every request returns the row numbers of exactly those (id, dof) pairs
    for tab in ([[3, 1], [3, 3], [3, 2], [5, 0], [7, 2], [7, 1]], [[7, 6], [7, 1], [3, 2], [3, 1], [5, 0]], [[3, 3], [3, 2], [3, 1], [4, 3], [4, 2], [4, 1]]):
        T = np.array(tab)
        allreq = [[list(r) for r in tab], [list(r) for r in tab[::-1]], [list(tab[2]), list(tab[0])], [[3, 21]], [[3, 12], list(tab[-1])]]
        for req in allreq:
            exp = []
            for i, c in req:
                exp.extend([i, int(ch)] for ch in str(int(c)))
            want = [tab.index(e) for e in exp if e in tab]
            for strict in (True, False):
                if strict and len(want) != len(exp):
                    continue
                try:
                    pv, out = n2p.mkdofpv(T, "p", np.array(req), strict=strict)
                except Exception as e:  # noqa
                    msgs.append("mkdofpv(table %s, %s, strict=%s) raised %r" % (tab, req, strict, e))
                    continue
                res.ev("dofpv/plain-table/strict%d" % strict)
                if list(pv) != want:
                    msgs.append("mkdofpv(table %s, %s, strict=%s) -> rows %s, the pairs are in rows %s" % (tab, req, strict, list(pv), want))
    # ids given as an (n, 1) column, with and without scalar points included
    for go in (True, False):
        ids1 = [r[0] for r in rows if r[1] in (0, 1)]
        e1 = np.asarray(n2p.expanddof(ids1, grids_only=go)).tolist()
        e2 = np.asarray(n2p.expanddof(np.array(ids1).reshape(-1, 1), grids_only=go)).tolist()
        if e1 != e2:
            msgs.append("expanddof of an (n, 1) id column (grids_only=%s) = %s differs from the 1-D id list form %s" % (go, e2[:8], e1[:8]))
        try:
            with warnings.catch_warnings():
                warnings.simplefilter("ignore")
                p1 = n2p.mkdofpv(uset, "p", ids1, strict=False, grids_only=go)[0].tolist()
                p2 = n2p.mkdofpv(uset, "p", np.array(ids1).reshape(-1, 1), strict=False, grids_only=go)[0].tolist()
            wantp = [i for i, r in enumerate(rows) if (r[1] != 0 or not go)]
            res.ev("dofpv/idcolumn/go%d" % go)
            if p1 != p2 or (not go and p1 != list(range(len(rows)))):
                msgs.append("mkdofpv(ids as an (n, 1) column, grids_only=%s) -> %s; with a 1-D id list %s; all rows: %d" % (go, p2[:14], p1[:14], len(rows)))
        except Exception as e:  # noqa
            msgs.append("mkdofpv with an id column (grids_only=%s) raised %r" % (go, e))
    for setname in ("p", "a", "b", "q", "g", "b+q", "a+b", "l+t"):
        mem = members(setname)
        sub = [i for i, l in enumerate(letters) if l in mem]
        subpos = {(rows[i][0], rows[i][1]): k for k, i in enumerate(sub)}
        for rname, req in requests.items():
            for strict in (True, False):
                # expected expansion
                arr = np.array(req)
                if arr.ndim == 1:
                    exp = [(int(i), k) for i in arr for k in range(1, 7)]
                else:
                    exp = []
                    for i, c in arr:
                        exp.extend((int(i), int(ch)) for ch in str(int(c)))
                present = [e in subpos for e in exp]
                try:
                    with warnings.catch_warnings():
                        warnings.simplefilter("ignore")
                        pv, out = n2p.mkdofpv(uset, setname, np.array(req), strict=strict)
                except ValueError as e:
                    if strict and not all(present):
                        res.ev("dofpv/refused")
                        continue
                    msgs.append("mkdofpv(%s, %s, strict=%s) raised %s" % (setname, req, strict, str(e)[:80]))
                    continue
                except Exception as e:  # noqa
                    msgs.append("mkdofpv(%s, %s, strict=%s) raised %r%s" % (setname, req, strict, e, " (empty set)" if not sub else ""))
                    continue
                if strict and not all(present):
                    msgs.append("mkdofpv(%s, %s, strict=True) did not refuse a request with missing DOF: returned %s" % (setname, req, pv.tolist()))
                    continue
                want = [subpos[e] for e, ok in zip(exp, present) if ok]
                wantdof = [list(e) for e, ok in zip(exp, present) if ok]
                if list(pv) != want or [list(map(int, r)) for r in out] != wantdof:
                    msgs.append("mkdofpv(%s, %s, strict=%s) -> %s / %s, expected positions %s / %s" % (setname, req, strict, list(pv), np.asarray(out).tolist(), want, wantdof))
                res.ev("dofpv/%s/%s/strict%d" % (setname, rname, strict))
    return msgs


# ------------------------------------------------------------------ locate helpers
def check_locate(res, which):
    from pyyeti import locate

    msgs = []
    if which == "mat_intersect":
        rowsets = [list(itertools.product((0, 1, 2), repeat=2))]
        rows2 = rowsets[0]
        mats = []
        for r in (1, 2, 3):
            for combo in itertools.product(range(len(rows2)), repeat=r):
                mats.append(np.array([rows2[i] for i in combo]))
        sel = mats[:: 7]
        for D1 in sel:
            for D2 in mats[:: 5]:
                for keep in (0, 1, 2):
                    pv1, pv2 = locate.mat_intersect(D1, D2, keep)
                    res.ev("mat_intersect/keep%d/%dx%d" % (keep, len(D1), len(D2)))
                    if len(pv1) != len(pv2) or (len(pv1) and not np.array_equal(D1[pv1], D2[pv2])):
                        msgs.append("mat_intersect(%s, %s, %d): D1[pv1] != D2[pv2]" % (D1.tolist(), D2.tolist(), keep))
                        continue
                    loop1 = keep == 1 or (keep == 0 and len(D1) <= len(D2))
                    needles, hay, pn = (D1, D2, pv1) if loop1 else (D2, D1, pv2)
                    want = [i for i, row in enumerate(needles) if any(np.array_equal(row, h) for h in hay)]
                    if list(pn) != want:
                        msgs.append("mat_intersect(%s, %s, %d): rows of the looped matrix found %s, expected %s" % (D1.tolist(), D2.tolist(), keep, list(pn), want))
        # mixed dtypes: an integer matrix against float rows with fractional parts (no silent truncation), every keep
        ints = [np.array([1, 2, 3, 4, 5]), np.array([[1, 2], [3, 4], [2, 2]])]
        flts = [np.array([2.5, 3.0, 4.999, 1.0]), np.array([[1.0, 2.0], [3.5, 4.0], [2.0, 2.0], [2.9, 2.0]])]
        for I, Fm in zip(ints, flts):
            for D1, D2 in ((I, Fm), (Fm, I)):
                for keep in (0, 1, 2):
                    pv1, pv2 = locate.mat_intersect(D1, D2, keep)
                    res.ev("mat_intersect/mixed-dtype/keep%d" % keep)
                    r1 = np.atleast_2d(D1.T).T if D1.ndim == 1 else D1
                    r2 = np.atleast_2d(D2.T).T if D2.ndim == 1 else D2
                    want = sorted((i, j) for i in range(len(r1)) for j in range(len(r2)) if np.array_equal(np.asarray(r1[i], float), np.asarray(r2[j], float)))
                    got = sorted(zip(map(int, pv1), map(int, pv2)))
                    if got != want:
                        msgs.append("mat_intersect(%s, %s, %d) on mixed integer/float input pairs rows %s; rows that are equal as numbers: %s" % (D1.tolist(), D2.tolist(), keep, got, want))
        # 1-D and float forms
        a, b = np.array([3.0, -0.0, 1.5, 7.0]), np.array([0.0, 7.0, 2.0])
        pv1, pv2 = locate.mat_intersect(a, b, 1)
        if list(pv1) != [1, 3] or list(pv2) != [0, 1]:
            msgs.append("mat_intersect on float vectors with -0.0: %s %s" % (pv1, pv2))
    elif which == "dtypes":
        # the helpers' defining relations hold for index / id vectors of ANY integer dtype (unsigned and narrow types
        # wrap around in differences) and for float vectors holding the same values
        DT = [np.uint8, np.uint16, np.uint32, np.uint64, np.int8, np.int16, np.int32, np.int64, float]

        def fits(v, dt):
            return dt is float or (min(v) >= np.iinfo(dt).min and max(v) <= np.iinfo(dt).max)

        base = np.arange(300) * 10
        pvs = [list(p) for n in (1, 2, 3) for p in itertools.product((0, 1, 3, 5, 100, 127, 128, 200, 250, 253, 255), repeat=n)]
        for pv in pvs:
            for dt in DT:
                if dt is float or not fits(pv, dt):
                    continue
                arr = np.array(pv, dtype=dt)
                snap = arr.copy()
                try:
                    sl = locate.index2slice(arr)
                except Exception as e:  # noqa
                    msgs.append("index2slice(%s as %s) raised %r" % (pv, np.dtype(dt).name, e))
                    continue
                res.ev("dtypes/index2slice/%s/n%d" % (np.dtype(dt).name, len(pv)))
                if not np.array_equal(base[sl], base[np.array(pv)]):
                    msgs.append("index2slice(%s as %s) = %s selects %s, the index vector selects %s" % (pv, np.dtype(dt).name, sl, base[sl].tolist()[:6], base[np.array(pv)].tolist()))
                if not np.array_equal(arr, snap):
                    msgs.append("index2slice modified its argument")
                tf = locate.index2bool(arr, 256)
                fl = locate.flippv(arr, 256)
                if tf.tolist() != [i in pv for i in range(256)] or fl.tolist() != [i for i in range(256) if i not in pv]:
                    msgs.append("index2bool/flippv(%s as %s, 256) wrong" % (pv, np.dtype(dt).name))
        vecs = [list(p) for n in (2, 3, 4) for p in itertools.product((0, 3, 3.0, 10, 128, 200, 255), repeat=n)]
        for v in vecs:
            v = [int(x) for x in v]
            for dt in DT:
                if not fits(v, dt):
                    continue
                arr = np.array(v, dtype=dt)
                for tol in (0.0, 0.02):
                    got = locate.find_unique(arr, tol)
                    dmax = max(abs(a - b) for a, b in zip(v[1:], v))
                    want = [True] + [abs(b - a) > abs(tol * dmax) for a, b in zip(v, v[1:])]
                    res.ev("dtypes/find_unique/%s" % np.dtype(dt).name)
                    if list(got) != want:
                        msgs.append("find_unique(%s as %s, %g) = %s, expected %s" % (v, np.dtype(dt).name, tol, list(got), want))
                for tol in (0, 3):
                    got = locate.find_duplicates(arr, tol)
                    srt = sorted(range(len(v)), key=lambda i: v[i])
                    want = [False] * len(v)
                    for a, b in zip(srt, srt[1:]):
                        if abs(v[a] - v[b]) <= tol:
                            want[a] = want[b] = True
                    res.ev("dtypes/find_duplicates/%s" % np.dtype(dt).name)
                    if list(got) != want:
                        msgs.append("find_duplicates(%s as %s, %g) = %s, expected %s" % (v, np.dtype(dt).name, tol, list(got), want))
                for sub in ([3, 3], [200], [255, 0]):
                    if not fits(sub, dt):
                        continue
                    got = locate.find_subseq(arr, np.array(sub, dtype=dt))
                    want = [i for i in range(len(v) - len(sub) + 1) if v[i : i + len(sub)] == sub]
                    if list(got) != want:
                        msgs.append("find_subseq(%s as %s, %s) = %s, expected %s" % (v, np.dtype(dt).name, sub, list(got), want))
        M1 = [[200, 10], [0, 255], [3, 3], [128, 127]]
        M2 = [[0, 255], [9, 9], [200, 10], [127, 128]]
        for d1, d2, keep in itertools.product(DT, DT, (0, 1, 2)):
            if not (fits(sum(M1, []), d1) and fits(sum(M2, []), d2)):
                continue
            pv1, pv2 = locate.mat_intersect(np.array(M1, dtype=d1), np.array(M2, dtype=d2), keep)
            res.ev("dtypes/mat_intersect/%s/%s" % (np.dtype(d1).name, np.dtype(d2).name))
            want = sorted((i, j) for i in range(4) for j in range(4) if M1[i] == M2[j])
            if sorted(zip(map(int, pv1), map(int, pv2))) != want:
                msgs.append("mat_intersect(%s as %s, %s as %s, %d) pairs %s, expected %s" % (M1, np.dtype(d1).name, M2, np.dtype(d2).name, keep, list(zip(pv1, pv2)), want))
            fr = locate.find_rows(np.array(M1, dtype=d1), np.array([0, 255], dtype=d2))
            if list(fr) != [False, True, False, False]:
                msgs.append("find_rows(%s as %s, [0, 255] as %s) = %s" % (M1, np.dtype(d1).name, np.dtype(d2).name, list(fr)))
            fv = locate.find_vals(np.array(M1, dtype=d1), np.array([3, 255], dtype=d2))
            if list(fv) != [False, False, True, False, False, True, True, False]:
                msgs.append("find_vals(%s as %s, [3, 255] as %s) = %s" % (M1, np.dtype(d1).name, np.dtype(d2).name, list(fv)))
    elif which == "index":
        for n in range(0, 5):
            for pv in itertools.product(range(-3, 6), repeat=n):
                pv = list(pv)
                # index2slice: result indexes identically (for arrays long enough)
                base = np.arange(12)
                try:
                    s = locate.index2slice(np.array(pv, dtype=int))
                except Exception as e:  # noqa
                    msgs.append("index2slice(%s) raised %r" % (pv, e))
                    continue
                want = base[np.array(pv, dtype=int)]
                got = base[s]
                res.ev("index2slice/n%d/%s" % (n, "slice" if isinstance(s, slice) else "array"))
                if not np.array_equal(got, want):
                    msgs.append("index2slice(%s) = %s selects %s, the index vector selects %s" % (pv, s, got.tolist(), want.tolist()))
                if not isinstance(s, slice):
                    try:
                        locate.index2slice(np.array(pv, dtype=int), strict=True)
                        msgs.append("index2slice(%s, strict=True) did not raise" % pv)
                    except ValueError:
                        pass
                nn = 7
                if pv and all(-nn <= v < nn for v in pv):
                    # negative positions count from the end; a boolean mask selects its True positions
                    sel = sorted(set(v % nn for v in pv))
                    fl = locate.flippv(pv, nn)
                    tf = locate.index2bool(pv, nn)
                    mask = np.zeros(nn, bool)
                    mask[sel] = True
                    flm = locate.flippv(mask, nn)
                    if fl.tolist() != [i for i in range(nn) if i not in sel] or tf.tolist() != mask.tolist() or flm.tolist() != fl.tolist():
                        msgs.append("flippv/index2bool(%s, %d) with negative positions / a boolean mask: %s / %s / %s; the selected positions are %s" % (pv, nn, fl.tolist(), tf.tolist(), flm.tolist(), sel))
                if pv and max(pv) >= 7:
                    try:
                        locate.flippv([max(pv) + 7], 7)
                        msgs.append("flippv with an out-of-range position did not raise")
                    except IndexError:
                        pass
                if all(v >= 0 for v in pv):
                    nn = 7
                    if all(v < nn for v in pv):
                        tf = locate.index2bool(pv, nn)
                        fl = locate.flippv(pv, nn)
                        if tf.tolist() != [i in pv for i in range(nn)] or fl.tolist() != [i for i in range(nn) if i not in pv]:
                            msgs.append("index2bool/flippv(%s, %d) wrong" % (pv, nn))
    else:
        # string labels, and heterogeneous labels compared with Python equality (an int and the string of its digits
        # are different items; tuples and None are legal list items)
        for sym, st1, st2 in (("abcd", 2, 3), ([10, "10", ("g", 1), None, "x"], 1, 2)):
            lists = [list(c) for n in range(0, 5) for c in itertools.permutations(sym, n)]
            for l1 in lists[::st1]:
                for l2 in lists[::st2]:
                    try:
                        m, p1, p2 = locate.merge_lists(l1, l2)
                        i1, i2 = locate.list_intersect(l1, l2)
                    except Exception as e:  # noqa
                        msgs.append("merge_lists/list_intersect(%s, %s) raised %r" % (l1, l2, e))
                        continue
                    res.ev("merge_lists/%s/%d/%d" % ("str" if sym == "abcd" else "mixed", len(l1), len(l2)))
                    ok = ([m[i] for i in p1] == l1 and [m[i] for i in p2] == l2 and set(m) == set(l1) | set(l2) and len(set(m)) == len(m)
                          and list(p1) == sorted(p1))
                    if not ok:
                        msgs.append("merge_lists(%s, %s) -> %s %s %s violates its defining relations" % (l1, l2, m, p1, p2))
                    if m is l1:
                        msgs.append("merge_lists returned list1 itself")
                    common = set(l1) & set(l2)
                    if ([l1[i] for i in i1] != [l2[i] for i in i2] or set(l1[i] for i in i1) != common or len(i1) != len(common) or list(i1) != sorted(i1)):
                        msgs.append("list_intersect(%s, %s) -> %s %s wrong" % (l1, l2, list(i1), list(i2)))
        for seq in itertools.product((0, 1, 2), repeat=5):
            for sub in ((1,), (0, 1), (1, 1), (2, 0, 1)):
                got = locate.find_subseq(seq, sub)
                want = [i for i in range(len(seq) - len(sub) + 1) if tuple(seq[i : i + len(sub)]) == sub]
                res.ev("find_subseq/%d" % len(sub))
                if list(got) != want:
                    msgs.append("find_subseq(%s, %s) = %s, expected %s" % (seq, sub, list(got), want))
        for v in itertools.product((0.0, 1.0, 1.0 + 1e-9, 2.0), repeat=4):
            for tol in (0.0, 1e-6):
                got = locate.find_duplicates(np.array(v), tol)
                srt = sorted(range(4), key=lambda i: v[i])
                want = [False] * 4
                for a, b in zip(srt, srt[1:]):
                    if abs(v[a] - v[b]) <= tol:
                        want[a] = want[b] = True
                res.ev("find_duplicates/tol%g" % tol)
                if list(got) != want:
                    msgs.append("find_duplicates(%s, %g) = %s, expected %s" % (v, tol, list(got), want))
        for m_ in (np.array([[1, 2], [3, 4], [1, 2]]),):
            if list(locate.find_rows(m_, [1, 2])) != [True, False, True]:
                msgs.append("find_rows wrong")
            if list(locate.find_vals(m_, [2, 3])) != [False, True, False, True, False, True]:
                msgs.append("find_vals wrong (column-major order expected)")
    return msgs


# ------------------------------------------------------------------ driver
def set_pairs():
    # '+' unions: disjoint, overlapping (a superset plus one of its members, two overlapping supersets) and repeated terms
    exprs = NAMES + ["b+q", "c+r", "o+s", "m+e", "a+o", "q+e", "a+b", "m+g", "t+l+r", "b+b", "f+o", "s+n", "l+t"]
    return [(a, b) for a in exprs for b in exprs]


def addgrid_history(alpha, k, step, res):
    """history of addgrid calls with set strings built at run time: every table must carry exactly the sets of
    its own string, whatever was requested before (module-level state, object reuse)"""
    from pyyeti.nastran import n2p

    msgs = []
    for i, letters in enumerate(itertools.product(alpha, repeat=6)):
        if i % step != k:
            continue
        s = "".join(letters)  # a fresh string object for every call
        t = "".join(reversed(letters))
        with warnings.catch_warnings():
            warnings.simplefilter("ignore")
            u1 = n2p.addgrid(None, 10, s, 0, [0.0, 0.0, 0.0], 0)
            u2 = n2p.addgrid(u1, 30, t, 0, [1.0, 2.0, 3.0], 0)
        res.ev("addgrid-history/%s" % "".join(sorted(set(s))), n=0)
        for uset, want in ((u1, s), (u2, s + t)):
            got = ["?"] * len(want)
            for b in BASE:
                pv = n2p.mksetpv(uset, "p", b)
                for j in np.nonzero(pv)[0]:
                    got[j] = b if got[j] == "?" else got[j] + b
            if "".join(got) != want:
                msgs.append("addgrid call #%d of the history: table built from sets %r carries sets %r" % (i, want, "".join(got)))
                return msgs
        del u1, u2, s, t
    return msgs


def shards(tier, seed):
    out = []
    for k in range(4):
        out.append(dict(part="addgrid_hist", k=k, step=4, alpha="bcq" if tier == "quick" else "bcqos", tier=tier))
    for k in range(16):
        out.append(dict(part="nodes", k=k, step=16, tier=tier))
    alpha = "bcq" if tier == "quick" else "bcqos"
    nper = len(alpha) ** 6
    for k in range(16):
        out.append(dict(part="perdof", k=k, step=16, alpha=alpha, tier=tier))
    for k in range(4):
        out.append(dict(part="mixedform", k=k, step=4, alpha=alpha, tier=tier))
    for w in ("mat_intersect", "index", "lists", "dtypes"):
        out.append(dict(part="locate", which=w, tier=tier))
    r = seed % len(out)
    return out[r:] + out[:r]


def run_shard(sh):
    res = Result()
    pairs = set_pairs()
    if sh["part"] == "nodes":
        combos = list(itertools.product(BASE, repeat=3))
        for i in range(sh["k"], len(combos), sh["step"]):
            a, b, c = combos[i]
            uset, rows = build_table(a * 6, b, c * 6)
            msgs = check_table(uset, rows, res, pairs) + (check_dofpv(uset, rows, res) if i % 8 == sh["k"] % 8 else [])
            res.ev("nodes/%s%s%s" % (a, b, c), outcome=a + b + c, n=len(pairs))
            for m in msgs:
                res.viol(dict(part="nodes", sets=[a, b, c]), m, kind="nodes-" + m.split("(")[0][:25])
        res.sample(dict(part="nodes", sets=[a, b, c]))
    elif sh["part"] == "perdof":
        combos = itertools.product(sh["alpha"], repeat=6)
        sub = [p for p in pairs if set(p[0].split("+") + p[1].split("+")) <= set("bcqoslatfn") | {"b+q", "c+r", "o+s", "a+o"}][::3]
        for i, letters in enumerate(combos):
            if i % sh["step"] != sh["k"]:
                continue
            s = "".join(letters)
            uset, rows = build_table(s, "q", s[::-1])
            msgs = check_table(uset, rows, res, sub) + (check_dofpv(uset, rows, res) if i % 40 == sh["k"] else [])
            res.ev("perdof/%s" % "".join(sorted(set(s))), outcome=s, n=len(sub))
            for m in msgs:
                res.viol(dict(part="perdof", letters=s), m, kind="perdof-" + m.split("(")[0][:25])
        res.sample(dict(part="perdof", letters=s))
    elif sh["part"] == "mixedform":
        # tables in MIXED form: one grid as six rows with per-DOF sets, the other as one [id, 123456] row (and both compact)
        sub = [p for p in pairs if set(p[0].split("+") + p[1].split("+")) <= set("bcqoslatfn") | {"b+q", "c+r", "o+s", "a+o"}][::5]
        for i, letters in enumerate(itertools.product(sh["alpha"], repeat=6)):
            if i % sh["step"] != sh["k"]:
                continue
            s = "".join(letters)
            u = sh["alpha"][i % len(sh["alpha"])]
            for g1, g2, comp in ((s, u * 6, (30,)), (u * 6, s, (10,)), (u * 6, s[0] * 6, (10, 30))):
                try:
                    uset, rows = build_table(g1, "q", g2, compact=comp)
                    msgs = check_table(uset, rows, res, sub)
                except Exception as e:  # noqa
                    msgs = ["make_uset with a mixed-form DOF list raised %r" % (e,)]
                res.ev("mixedform/%s/%s" % ("".join(sorted(set(s))), "+".join(map(str, comp))), outcome=s, n=len(sub))
                for m in msgs:
                    res.viol(dict(part="mixedform", g1=g1, g2=g2, compact=list(comp)), m, kind="mixedform-" + m.split("(")[0][:25])
        res.sample(dict(part="mixedform", letters=s))
    elif sh["part"] == "addgrid_hist":
        for m in addgrid_history(sh["alpha"], sh["k"], sh["step"], res):
            res.viol(dict(sh), m, kind="addgrid-history")
        res.sample(dict(sh))
    else:
        for m in check_locate(res, sh["which"]):
            res.viol(dict(part="locate", which=sh["which"]), m, kind="locate-" + m.split("(")[0])
        res.sample(dict(part="locate", which=sh["which"]))
    return res


def replay(case):
    res = Result()
    pairs = set_pairs()
    if case["part"] == "nodes":
        a, b, c = case["sets"]
        uset, rows = build_table(a * 6, b, c * 6)
        return check_table(uset, rows, res, pairs) + check_dofpv(uset, rows, res)
    if case["part"] == "perdof":
        s = case["letters"]
        uset, rows = build_table(s, "q", s[::-1])
        return check_table(uset, rows, res, pairs) + check_dofpv(uset, rows, res)
    if case["part"] == "mixedform":
        try:
            uset, rows = build_table(case["g1"], "q", case["g2"], compact=tuple(case["compact"]))
            return check_table(uset, rows, res, pairs)
        except Exception as e:  # noqa
            return ["make_uset with a mixed-form DOF list raised %r" % (e,)]
    if case["part"] == "addgrid_hist":
        return addgrid_history(case["alpha"], case["k"], case["step"], res)
    return check_locate(res, case["which"])
