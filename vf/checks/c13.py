"""C13 - bulk-data writers and their readers are mutual inverses (K1, R4)."""
import io
import itertools
import math
import warnings

import numpy as np

from vf.core import Result

PROP = "C13"
LEVEL = "model_checking"
RULE = (
    "id lists: EVERY non-empty subset of {1..7} (all run structures) and lengths 1..40 of {singletons, one run, "
    "alternating runs of length 1/2/3} through wtspoints/rdspoints, wtcsuper/rdcsupers, wtextrn/rdextrn, wtset/rdsets "
    "(line width 30 and 72); tables of length 1..17 x both field widths x value magnitudes through wttabled1/rdtabled1; "
    "DMIG: row/column index sets over 2 grids + 1 scalar point with partial DOF x forms 1/2/6/9 x types 1-4 x every "
    "sparsity pattern <=3x3 x value classes (incl. 3-digit exponents, nearly-symmetric squares) through wtdmig/rddmig; "
    "GRID: cp/cd/ps/seid present/absent x both widths x coordinate magnitudes; CORD2R/C/S chains and uset2bulk -> "
    "bulk2uset.  Oracle: same ids in the same order, same DOF labels, values to the precision of the written format. "
    "signature = writer/length class or form/type/pattern class"
)
ASSUMPTIONS = [
    "DMIG readers return only rows/columns that carry data: matrices are compared on the returned index (missing rows/"
    "columns must be all-zero in the written matrix)",
]


def bounds(tier):
    return {"quick": "subsets of {1..7}, lengths 1..40, tables 1..17, DMIG patterns <=2x3 + every 5th 3x3", "thorough": "all 3x3 DMIG patterns"}.get(tier, "")


def S():
    return io.StringIO()


def back(f):
    return io.StringIO(f.getvalue())


# ------------------------------------------------------------------ id lists
def id_lists(tier="quick"):
    out = []
    # ids in ANY order and with repeats (THRU compression must only use strictly consecutive runs)
    for n in range(1, 6 if tier == "quick" else 7):
        for ids in itertools.product((1, 2, 3, 5, 6), repeat=n):
            out.append(("anyorder", list(ids)))
    for k in range(1, 128):
        out.append(("subset", [i + 1 for i in range(7) if k >> i & 1]))
    for n in range(1, 41):
        out.append(("singletons", [3 * i + 2 for i in range(n)]))
        out.append(("onerun", list(range(1001, 1001 + n))))
        seq, cur, i = [], 10, 0
        while len(seq) < n:
            L = (1, 2, 3)[i % 3]
            seq.extend(range(cur, cur + L))
            cur += L + 2
            i += 1
        out.append(("altruns", seq[:n]))
        out.append(("bigids", [99999990 - 7 * i for i in range(n)][::-1]))
    return out


def expand_dof(pairs):
    out = []
    for i, d in pairs:
        if d == 0:
            out.append((i, 0))
        else:
            for ch in str(d):
                out.append((i, int(ch)))
    return out


def check_ids(kind, ids, res):
    from pyyeti.nastran import bulk

    msgs = []
    ids = list(ids)

    def attempt(name, fn):
        try:
            with warnings.catch_warnings():
                warnings.simplefilter("ignore")
                why = fn()
        except Exception as e:  # noqa
            why = "raised %r" % (e,)
        if why:
            msgs.append("%s: %s" % (name, why))

    def spoints():
        f = S()
        bulk.wtspoints(f, ids)
        if any(len(ln) > 80 for ln in f.getvalue().splitlines()):
            return "line longer than 80 characters"
        got = bulk.rdspoints(back(f))
        return None if list(got) == ids else "read %s, wrote %s\n%s" % (list(got)[:12], ids[:12], f.getvalue()[:300])

    def csuper():
        f = S()
        bulk.wtcsuper(f, 77, ids)
        d = bulk.rdcsupers(back(f))
        if list(d.keys()) != [77]:
            return "keys %s" % list(d.keys())
        v = d[77]
        got = [int(x) for x in v[2:] if x != -1]
        if int(v[0]) != 77 or int(v[1]) != 0:
            return "header fields %s" % v[:2]
        return None if got == ids else "read %s, wrote %s" % (got[:12], ids[:12])

    def extrn():
        dofs = [(123456, 0, 123, 5, 246)[i % 5] for i in range(len(ids))]
        f = S()
        bulk.wtextrn(f, ids, dofs)
        got = bulk.rdextrn(back(f))
        want = expand_dof(list(zip(ids, dofs)))
        if [tuple(int(x) for x in r) for r in got] != want:
            return "expanded (id, dof) pairs differ: %s vs %s" % (got[:6].tolist(), want[:6])
        raw = bulk.rdextrn(back(f), expand=False)
        if [tuple(int(x) for x in r) for r in raw] != list(zip(ids, dofs)):
            return "unexpanded pairs differ"
        return None

    def sets():
        for width in (30, 72, 100, 250):
            f = S()
            bulk.wtset(f, 101, ids, max_length=width)
            txt = f.getvalue()
            if any(len(ln) > width for ln in txt.splitlines()):
                return "SET line longer than max_length=%d" % width
            got = bulk.rdsets(io.StringIO(txt + "\n"))
            if list(got.keys()) != [101] or got[101] != ids:
                return "width %d: read %s, wrote %s\n%s" % (width, str(got)[:80], ids[:12], txt[:200])
        return None

    def multi():
        """several cards of one kind in one file (with a comment and an unrelated card between them)"""
        ids2 = [(i + 5000) if i < 90000000 else (i - 5000) for i in ids][::-1][: max(1, len(ids) - 1)][::-1]  # ids stay within 8 digits
        sep = "$ comment\nPARAM,POST,-1\n"
        f1, f2 = S(), S()
        bulk.wtset(f1, 101, ids)
        bulk.wtset(f2, 202, ids2)
        # wtset writes no line terminator (pinned by the repository's tests): the caller separates statements
        got = bulk.rdsets(io.StringIO(f1.getvalue() + "\n" + sep + f2.getvalue() + "\n"))
        if got != {101: ids, 202: ids2}:
            return "two SET cards in one file: read %s" % (str(got)[:120],)
        f1, f2 = S(), S()
        bulk.wtcsuper(f1, 77, ids)
        bulk.wtcsuper(f2, 78, ids2)
        d = bulk.rdcsupers(io.StringIO(f1.getvalue() + sep + f2.getvalue()))
        if sorted(d.keys()) != [77, 78] or [int(x) for x in d[77][2:] if x != -1] != ids or [int(x) for x in d[78][2:] if x != -1] != ids2:
            return "two CSUPER cards in one file: read %s" % (str(d)[:160],)
        f1, f2 = S(), S()
        bulk.wtspoints(f1, ids)
        bulk.wtspoints(f2, ids2)
        got = list(bulk.rdspoints(io.StringIO(f1.getvalue() + sep + f2.getvalue())))
        if got != ids + ids2:
            return "two SPOINT card groups in one file: read %s, wrote %s" % (got[:14], (ids + ids2)[:14])
        return None

    def forms():
        """ids handed over as ndarrays of every integer dtype that holds them (and dofs as list / ndarray) write the same
        text as the plain list"""
        dofs = [(123456, 0, 123, 5, 246)[i % 5] for i in range(len(ids))]
        writers = {
            "wtspoints": lambda x: (lambda f: (bulk.wtspoints(f, x), f.getvalue())[1])(S()),
            "wtcsuper": lambda x: (lambda f: (bulk.wtcsuper(f, 77, x), f.getvalue())[1])(S()),
            "wtset": lambda x: (lambda f: (bulk.wtset(f, 101, x), f.getvalue())[1])(S()),
            "wtextrn(dof list)": lambda x: (lambda f: (bulk.wtextrn(f, x, dofs), f.getvalue())[1])(S()),
            "wtextrn(dof array)": lambda x: (lambda f: (bulk.wtextrn(f, x, np.array(dofs)), f.getvalue())[1])(S()),
        }
        for wn, w in writers.items():
            base = w(list(ids))
            for dt in (np.uint8, np.int16, np.uint16, np.int32, np.uint32, np.int64, np.uint64):
                if min(ids) < np.iinfo(dt).min or max(ids) > np.iinfo(dt).max:
                    continue
                arr = np.array(ids, dtype=dt)
                snap = arr.copy()
                try:
                    txt = w(arr)
                except TypeError as e:
                    if "unsupported field type" in str(e):
                        res.exit("card writer refuses this numpy scalar type loudly (unsupported field type)")
                        continue
                    return "%s raised %r for ids given as a %s array" % (wn, e, np.dtype(dt).name)
                except Exception as e:  # noqa
                    return "%s raised %r for ids given as a %s array" % (wn, e, np.dtype(dt).name)
                if txt != base:
                    return "%s writes different text for ids given as a %s array than for the same list:\n%s\nvs\n%s" % (wn, np.dtype(dt).name, txt[:200], base[:200])
                if not np.array_equal(arr, snap):
                    return "%s modified the id array" % wn
        return None

    if len(ids) <= 12:
        attempt("id container forms", forms)
    attempt("several cards in one file", multi)
    attempt("wtspoints/rdspoints", spoints)
    attempt("wtcsuper/rdcsupers", csuper)
    attempt("wtextrn/rdextrn", extrn)
    attempt("wtset/rdsets", sets)
    return msgs


# ------------------------------------------------------------------ tables
def check_table(n, form, res, kind="std"):
    from pyyeti.nastran import bulk

    if kind != "std":
        m_ = check_table_kind(n, form, kind)
        return m_
    t = np.array([0.0, 0.001, 0.5, 1.0, 2.5, 10.0, 100.0, 1e3, 1.5e3, 2e3, 1e4, 2e4, 1e5, 2e5, 1e6, 2e6, 1e7])[:n]
    d = np.array([1.0, -2.5, 0.0, 3.25e-5, -4e3, 5.5, -6.125, 7e7, 0.5, -0.25, 9.0, 1e-9, -1e9, 2.0, 3.0, -4.0, 5.0])[:n]
    if "f}" in form:  # values that fit 8 characters in fixed notation
        t = np.arange(n) * 0.25
        d = np.array([1.0, -2.5, 0.0, 3.25e-5, -4.0, 5.5, -6.125, 7.0, 0.5, -0.25, 9.0, 1e-3, -9.5, 2.0, 3.0, -4.0, 5.0])[:n]
    f = S()
    try:
        with warnings.catch_warnings():
            warnings.simplefilter("ignore")
            bulk.wttabled1(f, 42, t, d, form=form)
            got = bulk.rdtabled1(back(f))
    except Exception as e:  # noqa
        return ["wttabled1/rdtabled1 with %d points (form %r) raised %r" % (n, form, e)]
    if list(got.keys()) != [42]:
        return ["rdtabled1 keys %s" % list(got.keys())]
    g = got[42]
    want = np.column_stack((t, d))
    if g.shape != want.shape:
        return ["table with %d points: read shape %s\n%s" % (n, g.shape, f.getvalue()[:400])]
    if "f}" in form:  # fixed decimals: absolute precision of the written format
        err = np.abs(g - want) / np.array([0.5001e-2, 0.5001e-5])[None, :]
        digits = 1.0
    else:
        digits = 1e-9 if "16" in form else 0.06
        scale = np.maximum(np.abs(want), 1e-300)
        err = np.abs(g - want) / scale
        err[(want == 0) & (g == 0)] = 0
    if not np.all(err <= digits):
        return ["table with %d points: values differ beyond the written precision (max rel err %.3g)" % (n, err.max())]
    return []


def check_table_kind(n, form, kind):
    """tables whose LAST point is (0, 0) or has y = 0 / x = 0: the ENDT marker, not the values, ends the table"""
    from pyyeti.nastran import bulk

    if kind == "origin-last":  # (values with two significant digits: exact in every written format)
        t = (np.arange(n) - (n - 1)) * 0.5
        d = np.array([2.0, -1.5, 0.5, 1.0] * 5)[:n].copy()
        d[-1] = 0.0
    elif kind == "zeros-tail":  # several trailing points with y = 0 and the last x = 0
        t = (np.arange(n) - (n - 1)) * 0.5
        d = np.where(np.arange(n) < max(1, n - 3), 1.5, 0.0)
    else:  # all zero
        t = np.zeros(n)
        t[:] = (np.arange(n) - (n - 1)) * 1.0
        d = np.zeros(n)
    f = S()
    try:
        with warnings.catch_warnings():
            warnings.simplefilter("ignore")
            bulk.wttabled1(f, 42, t, d, form=form)
            got = bulk.rdtabled1(back(f))
    except Exception as e:  # noqa
        return ["wttabled1/rdtabled1 (%s table, %d points, form %r) raised %r" % (kind, n, form, e)]
    g = got.get(42)
    want = np.column_stack((t, d))
    if g is None or g.shape != want.shape or not np.allclose(g, want, rtol=1e-9, atol=1e-9):
        return ["%s table with %d points reads back as %s; written %s" % (kind, n, None if g is None else g.tolist()[-3:], want.tolist()[-3:])]
    return []


# ------------------------------------------------------------------ DMIG
DVALS = {"o1": [1.5, -2.25, 3.125, 0.75, -4.5, 1.0625, 7.0, -0.5, 9.75], "exp3": [1.5e100, -2.25e-100, 3.1e250, -4e-250, 5.5e300, 6e-300, -7e199, 8e-199, -1e-100],
         "mixed": [1e-5, -2e5, 3.0, 4e10, -5e-10, 6.0, 7e1, -8e-1, 9e20]}
ROWSETS = [[(10, 1), (10, 3), (20, 2)], [(10, 2), (30, 0), (20, 6)], [(30, 0), (10, 1), (10, 2)], [(10, 1), (10, 2), (10, 3)]]


def check_dmig(form, mtype, r, c, pattern, vclass, rs, res):
    import pandas as pd
    from pyyeti.nastran import bulk

    vals = DVALS[vclass]
    cplx = mtype > 2
    dt = {1: np.float32, 2: np.float64, 3: np.complex64, 4: np.complex128}[mtype]
    M = np.zeros((r, c), complex if cplx else float)
    k = 0
    for j in range(c):
        for i in range(r):
            if pattern >> (j * r + i) & 1:
                v = vals[k % len(vals)]
                if mtype in (1, 3) and (abs(v) > 1e38 or 0 < abs(v) < 1e-37):
                    v = math.copysign(1.0 + k, v)
                M[i, j] = complex(v, vals[(k + 2) % len(vals)] if mtype == 4 else 0.5 * (k + 1)) if cplx else v
                k += 1
    rows = sorted(ROWSETS[rs][:r], key=lambda x: 10 * x[0] + x[1])
    herm = form == 11
    if herm:
        # Hermitian but not symmetric complex square matrix: must be treated as a general (form 1) matrix
        if r != c or not cplx:
            return [], None
        M = np.tril(M) + np.tril(M, -1).conj().T
        M[np.diag_indices(r)] = M.diagonal().real
        if np.allclose(M.T, M):
            return [], None
        form = 1
        cols = rows
    elif form in (1, 6):
        if r != c:
            return [], None
        cols = rows
        if form == 6:
            M = M + M.T - np.diag(np.diag(M))
            M = np.tril(M) + np.tril(M, -1).T
        elif np.allclose(M.T, M):
            return [], None  # wtdmig would call it form 6
    elif form == 2:
        if r == c:
            return [], None
        cols = sorted(ROWSETS[(rs + 1) % len(ROWSETS)][:c], key=lambda x: 10 * x[0] + x[1])
    else:
        cols = None
    M = M.astype(dt)
    ri = pd.MultiIndex.from_tuples(rows, names=["id", "dof"])
    collabels = [[1, 2, 3], [2, 5, 9], [3, 1, 2], [7, 4, 12]][(rs + pattern) % 4][:c]  # form 9: column numbers need not be 1..n
    if form == 9:
        df = pd.DataFrame(M, index=ri, columns=collabels)
    else:
        df = pd.DataFrame(M, index=ri, columns=pd.MultiIndex.from_tuples(cols, names=["id", "dof"]))
    f = S()
    try:
        with warnings.catch_warnings():
            warnings.simplefilter("ignore")
            bulk.wtdmig(f, {"kmat": df})
            got = bulk.rddmig(back(f))
    except Exception as e:  # noqa
        return ["wtdmig/rddmig raised %r" % (e,)], "raise"
    if not M.any():
        return ([] if not got or "kmat" not in got or not got["kmat"].values.any() else ["all-zero DMIG read back non-zero"]), "zero"
    if "kmat" not in got:
        return ["rddmig did not return the matrix (keys %s)" % list(got.keys())], "missing"
    G = got["kmat"]
    # compare on the returned index; everything not returned must be zero in M
    tol = 1e-9 if mtype in (2, 4) else 1e-6
    total = 0.0
    msgs = []
    gi = [tuple(int(x) for x in t) for t in G.index]
    gc = [tuple(int(x) for x in t) for t in G.columns] if form != 9 else [int(x) for x in G.columns]
    for (a, idr) in enumerate(rows):
        for (b, idc) in enumerate(cols if form != 9 else collabels):
            w_ = M[a, b]
            if idr in gi and idc in gc:
                g = G.values[gi.index(idr), gc.index(idc)]
            else:
                g = 0.0
            if abs(g - w_) > tol * max(abs(w_), 1e-300) and not (w_ == 0 and g == 0):
                msgs.append("DMIG form %d type %d: entry row %s col %s wrote %r read %r\n%s" % (form, mtype, idr, idc, w_, g, f.getvalue()[:500]))
                return msgs, "value"
    if np.count_nonzero(G.values) != np.count_nonzero(M):
        msgs.append("DMIG form %d type %d: %d non-zeros read, %d written" % (form, mtype, np.count_nonzero(G.values), np.count_nonzero(M)))
    if gi != sorted(gi, key=lambda x: 10 * x[0] + x[1]):
        msgs.append("DMIG row index not in (id, dof) order")
    if not msgs:
        msgs.extend(_dmig_expanded(bulk, f, form, rows, cols, collabels, M, tol))
    return msgs, "ok"


def _dmig_expanded(bulk, f, form, rows, cols, collabels, M, tol):
    """documented read options on the same file: expanded=True (all 6 DOF of every referenced grid; form 9: columns 1..NCOL
    where NCOL is the largest column number, wtdmig Notes) and square=True (form 1: identical row and column index)"""
    msgs = []
    header = f.getvalue().splitlines()[0]
    if form == 9 and M.any():
        try:
            ncol = int(header[64:72])
        except ValueError:
            ncol = None
        if ncol != max(collabels):
            msgs.append("DMIG form 9: header NCOL %r, documented: largest column number %d\n%s" % (ncol, max(collabels), header))
            return msgs
    for opts in (dict(expanded=True), dict(expanded=True, square=True), dict(square=True)):
        try:
            with warnings.catch_warnings():
                warnings.simplefilter("ignore")
                E = bulk.rddmig(back(f), **opts)["kmat"]
        except Exception as e:  # noqa
            return ["rddmig(%r) raised %r on a file the default read accepts\n%s" % (opts, e, f.getvalue()[:400])]
        ei = [tuple(int(x) for x in t) for t in E.index]
        ec = [tuple(int(x) for x in t) for t in E.columns] if form != 9 else [int(x) for x in E.columns]
        if form == 9 and opts.get("expanded") and ec != list(range(1, max(collabels) + 1)):
            msgs.append("rddmig(%r) form 9: columns %r, expected 1..%d" % (opts, ec, max(collabels)))
            break
        if opts.get("expanded"):
            want = set()
            for (i, d) in ei:
                want.update([(i, k) for k in range(1, 7)] if d > 0 else [(i, 0)])
            if set(ei) != want or len(ei) != len(set(ei)):
                msgs.append("rddmig(%r): row index is not the full 6-DOF expansion of the referenced ids: %r" % (opts, ei))
                break
        if form == 1 and opts.get("square") and ei != ec:
            msgs.append("rddmig(%r) form 1: row and column index differ" % (opts,))
            break
        tot = 0
        for (a, idr) in enumerate(rows):
            for (b, idc) in enumerate(cols if form != 9 else collabels):
                w_ = M[a, b]
                g = E.values[ei.index(idr), ec.index(idc)] if idr in ei and idc in ec else 0.0
                if abs(g - w_) > tol * max(abs(w_), 1e-300) and not (w_ == 0 and g == 0):
                    msgs.append("rddmig(%r) form %d: entry row %s col %s wrote %r read %r\n%s" % (opts, form, idr, idc, w_, g, f.getvalue()[:500]))
                    return msgs
        sym = form == 6
        nz_w = np.count_nonzero(M)
        if not sym and np.count_nonzero(E.values) != nz_w:
            msgs.append("rddmig(%r) form %d: %d non-zeros read, %d written" % (opts, form, np.count_nonzero(E.values), nz_w))
            break
    return msgs


# ------------------------------------------------------------------ GRID / CORD2 / uset
def check_grids(res):
    from pyyeti.nastran import bulk

    msgs = []
    ids = np.array([1, 22, 333, 4444, 99999999])
    mags = {"o1": 1.0, "big": 1e4, "small": 1e-3, "neg": -57.5}
    for (mname, mag), form, cp, cd, ps, seid in itertools.product(mags.items(), ("{:16.8f}", "{:8.2f}", "{:16.9E}", "{:8.1E}"), (0, 7), (0, 12), ("", "123"), ("", "5")):
        xyz = np.array([[1.0, 2.0, 3.0], [-4.5, 5.25, 0.0], [0.125, -0.5, 8.0], [9.0, 9.0, 9.0], [0.0, 0.0, -1.0]]) * mag
        if "8.2f" in form and abs(mag) >= 1e4:
            continue
        f = S()
        try:
            with warnings.catch_warnings():
                warnings.simplefilter("ignore")
                bulk.wtgrids(f, ids, cp, xyz, cd, ps, seid, form=form)
                g = bulk.rdgrids(back(f))
        except Exception as e:  # noqa
            msgs.append("wtgrids/rdgrids(form=%s, ps=%r, seid=%r) raised %r" % (form, ps, seid, e))
            continue
        res.ev("grid/%s/%s/ps%d/seid%d" % (form, mname, bool(ps), bool(seid)))
        prec = {"{:16.8f}": 1e-8, "{:8.2f}": 1e-2, "{:16.9E}": 1e-9, "{:8.1E}": 0.06}[form]
        ok = (g.shape[0] == 5 and np.array_equal(g[:, 0], ids) and np.all(g[:, 1] == cp) and np.all(g[:, 5] == cd))
        if ok:
            if "f}" in form:
                ok = np.all(np.abs(g[:, 2:5] - xyz) <= 0.5001 * prec + 1e-12 * np.abs(xyz))
            else:
                ok = np.all(np.abs(g[:, 2:5] - xyz) <= prec * np.abs(xyz) + 1e-300)
        if ok:
            ok = np.all(g[:, 6] == (123 if ps else 0)) and np.all(g[:, 7] == (5 if seid else 0))
        if not ok:
            msgs.append("GRID round trip (form=%s, cp=%d, cd=%d, ps=%r, seid=%r, %s) differs:\n%s" % (form, cp, cd, ps, seid, mname, f.getvalue()[:300]))
    return msgs


def coord_chain(types, seed=0):
    """CORD2 definitions (4x3) for a chain: each system references the previous one"""
    defs = []
    ref = 0
    geo = [([1.0, -2.0, 0.5], [0.3, -0.5, 0.8], [1.0, 0.2, 0.1]), ([0.0, 3.0, 1.0], [0.6, 0.6, 0.5], [-0.2, 1.0, 0.3]), ([2.0, 1.0, -1.0], [-0.4, 0.2, 0.9], [0.9, 0.1, 0.4])]
    for k, t in enumerate(types):
        A, zdir, xdir = (np.array(x) for x in geo[(k + seed) % 3])
        z = zdir / np.linalg.norm(zdir)
        x = xdir - (xdir @ z) * z
        x = x / np.linalg.norm(x)
        if t in (2, 3) and ref != 0:
            # points given in a cylindrical/spherical reference system: use honest coordinates there (r, theta, z/phi)
            pass
        B = A + 1.5 * z
        C = A + 2.0 * x + 0.5 * z
        cid = 100 + 10 * k
        defs.append(np.array([[cid, t, ref], A, B, C], dtype=float))
        ref = cid if t == 1 else ref  # A,B,C are given as rectangular triples: only chain through rectangular systems
    return defs


def check_coords(res):
    from pyyeti.nastran import bulk, n2p

    msgs = []
    for depth in (1, 2, 3):
        for types in itertools.product((1, 2, 3), repeat=depth):
            defs = coord_chain(types)
            try:
                with warnings.catch_warnings():
                    warnings.simplefilter("ignore")
                    gids = list(range(1, len(defs) + 2))
                    cins = [0] + defs
                    xyz = [[1.0, 2.0, 3.0]] + [[2.0, 30.0 + 10 * i, 40.0] for i in range(len(defs))]
                    uset = n2p.addgrid(None, gids, "b", cins, xyz, [0] + defs)
                    f = S()
                    bulk.uset2bulk(f, uset)
                    uset2, coords = bulk.bulk2uset(back(f))
            except Exception as e:  # noqa
                msgs.append("uset2bulk/bulk2uset raised %r for coordinate chain %s" % (e, types))
                continue
            res.ev("coords/depth%d/%s" % (depth, "".join(map(str, types))))
            # scalar points in the table (before, between, after the grids; 1, 6 or 7 of them) do not change the bulk data
            try:
                import pandas as pd

                base_txt = f.getvalue()
                for nsp, where in itertools.product((1, 6, 7), ("lead", "mid", "trail")):
                    sp = n2p.make_uset([[9000 + k, 0] for k in range(nsp)], "q")
                    uu = {"lead": pd.concat([sp, uset]), "mid": pd.concat([uset.iloc[:6], sp, uset.iloc[6:]]), "trail": pd.concat([uset, sp])}[where]
                    f2 = S()
                    with warnings.catch_warnings():
                        warnings.simplefilter("ignore")
                        bulk.uset2bulk(f2, uu)
                    if f2.getvalue() != base_txt:
                        msgs.append("uset2bulk of a table with %d scalar point(s) (%s) writes different GRID / CORD2 data than the grid-only table (chain %s)" % (nsp, where, types))
                        break
            except Exception as e:  # noqa
                msgs.append("uset2bulk of a table with scalar points raised %r (chain %s)" % (e, types))
            a, b = uset.values.astype(float), uset2.values.astype(float)
            if a.shape != b.shape or list(uset.index) != list(uset2.index):
                msgs.append("uset2bulk -> bulk2uset changed the table layout for chain %s" % (types,))
                continue
            sc = max(np.abs(a).max(), 1.0)
            if not np.abs(a - b).max() <= 2e-7 * sc:
                i = np.unravel_index(np.argmax(np.abs(a - b)), a.shape)
                msgs.append("uset2bulk -> bulk2uset: table differs for chain %s (max abs diff %.3g at %s)" % (types, np.abs(a - b).max(), i))
            if sorted(k for k in coords.keys() if k != 0) != sorted(int(d[0, 0]) for d in defs):  # 0 = basic, always present
                msgs.append("coordinate systems read back %s, written %s" % (sorted(coords.keys()), [int(d[0, 0]) for d in defs]))
    return msgs


def check_coord_values(res):
    """every number of a CORD2x card survives wtcoordcards -> rdcards to the precision of the 16.8e field, for
    points whose components span many decades (far origins with small offsets)"""
    from pyyeti.nastran import bulk

    msgs = []
    mags = [1.0, 2.5e-4, 3.0e5, -7.0e-9, 4.0e8, -1.5e-3, 6.0, 8.0e-6, -2.0e2]
    for name, typ in (("CORD2R", 1), ("CORD2C", 2), ("CORD2S", 3)):
        for rot in range(9):
            abc = np.array([mags[(rot + i) % 9] for i in range(9)]).reshape(3, 3)
            for scale in (1.0, 1e3):
                abc2 = abc * scale
                cid = 10 + rot
                ci = {cid: [name, np.vstack(([cid, typ, 0], abc2))]}
                f = S()
                try:
                    bulk.wtcoordcards(f, ci)
                    got = bulk.rdcards(back(f), name.lower(), return_var="list")
                except Exception as e:  # noqa
                    msgs.append("wtcoordcards/rdcards raised %r for %s" % (e, abc2.tolist()))
                    continue
                res.ev("coordvalues/%s" % name)
                vals = [v for v in got[0] if v != "" and not isinstance(v, str)] if got else []
                if len(vals) != 11 or vals[0] != cid or vals[1] != 0:
                    msgs.append("CORD2 card read back as %s" % (vals,))
                    continue
                w = abc2.ravel()
                g = np.array(vals[2:], float)
                bad = np.abs(g - w) > 6e-9 * np.abs(w)
                # values below 1e-15 of the largest are documented noise and may be written as zero
                bad &= ~((g == 0) & (np.abs(w) < 1e-14 * np.abs(w).max()))
                if bad.any():
                    i = int(np.nonzero(bad)[0][0])
                    msgs.append("%s card: value %r of point %s was read back as %r (card written from %s)" % (name, w[i], "ABC"[i // 3], g[i], abc2.tolist()))
    return msgs


# ------------------------------------------------------------------ driver
def shards(tier, seed):
    out = [dict(part="ids", lo=i, step=16, tier=tier) for i in range(16)]
    out.append(dict(part="tables", tier=tier))
    for form in (1, 2, 6, 9, 11):
        for mtype in (1, 2, 3, 4):
            if form == 11 and mtype < 3:
                continue
            out.append(dict(part="dmig", form=form, mtype=mtype, tier=tier))
    out.append(dict(part="grids", tier=tier))
    out.append(dict(part="coords", tier=tier))
    r = seed % len(out)
    return out[r:] + out[:r]


def dmig_cases(form, tier):
    out = []
    shapes = [(1, 1), (2, 2), (3, 3)] if form in (1, 6, 11) else ([(1, 2), (2, 1), (2, 3), (3, 2), (1, 3), (3, 1)] if form == 2 else [(1, 1), (2, 1), (2, 2), (3, 2), (2, 3), (3, 3)])
    for r, c in shapes:
        n = r * c
        step = 1 if (n < 9 or tier != "quick") else 5
        for p in range(0, 2 ** n, step):
            for vc in DVALS:
                for rs in range(len(ROWSETS)):
                    if rs and (p % 3):
                        continue
                    out.append((r, c, p, vc, rs))
    return out


def run_shard(sh):
    res = Result()
    tier = sh["tier"]
    if sh["part"] == "ids":
        L = id_lists(tier)
        for i in range(sh["lo"], len(L), sh["step"]):
            kind, ids = L[i]
            msgs = check_ids(kind, ids, res)
            res.ev("ids/%s/len%d" % (kind, min(len(ids), 40) if kind != "subset" else len(ids)), outcome=str(ids[:8]))
            for m in msgs:
                res.viol(dict(part="ids", idx=i, kind=kind, ids=ids), m, kind="ids-" + m.split(":")[0])
        res.sample(dict(part="ids", kind=kind, ids=ids[:10]))
    elif sh["part"] == "tables":
        for n in range(1, 18):
            for form in ("{:16.9E}{:16.9E}", "{:8.2f}{:8.5f}", "{:8.1E}{:8.1E}"):
                for kind_ in ("std", "origin-last", "zeros-tail", "all-zero"):
                    if kind_ != "std" and "f}" in form and n > 12:
                        continue
                    msgs = check_table(n, form, res, kind=kind_)
                    res.ev("table/n%d/%s/%s" % (n, form, kind_))
                    for m in msgs:
                        res.viol(dict(part="tables", n=n, form=form, kind=kind_), m, kind="table-" + m.split(" with")[0][:24] + ("-raise" if "raised" in m else ""))
        res.sample(dict(part="tables", n=n, form=form))
    elif sh["part"] == "dmig":
        for (r, c, p, vc, rs) in dmig_cases(sh["form"], tier):
            msgs, sig = check_dmig(sh["form"], sh["mtype"], r, c, p, vc, rs, res)
            if sig is None:
                continue
            res.ev("dmig/f%d/t%d/%dx%d/%s/%s" % (sh["form"], sh["mtype"], r, c, vc, sig))
            for m in msgs:
                res.viol(dict(part="dmig", form=sh["form"], mtype=sh["mtype"], r=r, c=c, pattern=p, vclass=vc, rs=rs), m, kind="dmig-" + vc + "-" + m.split(":")[0][:30])
        res.sample(dict(part="dmig", form=sh["form"], mtype=sh["mtype"], shape=[r, c], pattern=p))
    elif sh["part"] == "grids":
        for m in check_grids(res):
            res.viol(dict(part="grids"), m, kind="grid-" + m.split("(")[0])
        res.sample(dict(part="grids"))
    else:
        for m in check_coords(res) + check_coord_values(res):
            res.viol(dict(part="coords"), m, kind="coords-" + m.split(":")[0][:40])
        res.sample(dict(part="coords"))
    return res


def replay(case):
    res = Result()
    p = case["part"]
    if p == "ids":
        return check_ids(case["kind"], case["ids"], res)
    if p == "tables":
        return check_table(case["n"], case["form"], res, kind=case.get("kind", "std"))
    if p == "dmig":
        return check_dmig(case["form"], case["mtype"], case["r"], case["c"], case["pattern"], case["vclass"], case["rs"], res)[0]
    if p == "grids":
        return check_grids(res)
    return check_coords(res) + check_coord_values(res)
