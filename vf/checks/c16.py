"""C16 - CLA extrema / envelopes / uncertainty factors: K2 exploration of all
case histories (orders, counts, ties, NaNs) on the real containers against an
order-free reference model; apply_uf over all call sequences sharing a cache."""
import copy
import itertools
import math
from types import SimpleNamespace

import numpy as np

from vf.core import Result
from vf.kernels import state_hash

PROP = "C16"
LEVEL = "model_checking"
RULE = (
    "K2 over histories: every sequence of 1..L cases from a case menu built to create ties, sign flips and NaNs is "
    "fed to (a) cla.extrema in one- and two-column form x ext_x pattern x casenum x label form, (b) real DR_Results "
    "through time/frf/psd data recovery incl. SRS envelopes, (c) form_extreme over every bracketing/order/doappend and "
    "merge order, (d) apply_uf over every sequence of 1..3 calls sharing one cache; after every step the container is "
    "compared with an order-free reference (true max/min, first attaining case label and abscissa, per-case columns). "
    "states = distinct container contents, transitions = case additions; signature = part/variant + tie/NaN/sign pattern"
)
ASSUMPTIONS = [
    "case menu values {-2,-1,0,1,2,NaN}; 2-3 rows per response; histories up to the stated length",
    "per-case SRS values are taken from srs.srs/srs_frf/vrs themselves (C03 decides those); only the envelope is decided here",
    "all-NaN response rows are outside maxmin's domain (numpy raises) and are not generated",
]
NAN = float("nan")


def bounds(tier):
    return {"quick": "extrema: sequences <=4 over 6 (1-col) / 11 (2-col) cases; DR recovery <=3 of 6 cases; "
                     "form_extreme 2-3 events; apply_uf <=2 calls",
            "thorough": "extrema: sequences <=5; DR recovery <=4 of 6 cases; form_extreme 2-3 events all bracketings; "
                        "apply_uf <=3 calls"}.get(tier, "")


def eqnan(a, b):
    a = np.asarray(a, dtype=float)
    b = np.asarray(b, dtype=float)
    return a.shape == b.shape and bool(np.all((a == b) | (np.isnan(a) & np.isnan(b))))


# --------------------------------------------------------------- (a) cla.extrema direct
V1 = [-2.0, -1.0, 0.0, 1.0, 2.0, NAN]
SIG1 = {0: 3, 1: 5, 2: 2, 3: 4, 4: 1, 5: 0}  # row-1 value index for a given row-0 index
P2 = [(2.0, -2.0), (2.0, 1.0), (1.0, 1.0), (1.0, -1.0), (-1.0, -2.0), (0.0, 0.0), (NAN, NAN), (2.0, 2.0),
      (-1.0, -1.0), (2.0, -1.0), (1.0, -2.0)]


def mk_mm(cols, ci, pos, xmode):
    """case number `ci` of the menu placed at history position `pos`"""
    if cols == 1:
        ext = np.array([[V1[ci]], [V1[SIG1[ci]]]])
    else:
        ext = np.array([P2[ci], P2[(ci * 3 + 4) % len(P2)]])
    intmode = xmode.endswith("+int")
    xm = xmode.replace("+int", "")
    has_x = xm == "all" or (xm == "alt" and pos % 2 == 0) or (xm == "alt2" and pos % 2 == 1)
    if has_x:
        ext_x = np.array([[100.0 * (pos + 1) + 10 * r + c for c in range(cols)] for r in range(2)])
    else:
        ext_x = None
    if intmode:
        # cases at even positions hand over integer-typed arrays (when they hold no NaN); cases at odd positions hold
        # non-integer values: the table must keep them whatever the dtype of the first case was
        if pos % 2 == 0:
            if not np.isnan(ext).any():
                ext = ext.astype(np.int64)
                ext_x = None if ext_x is None else ext_x.astype(np.int64)
        else:
            ext = ext * 0.75
            ext_x = None if ext_x is None else ext_x + 0.5
    return SimpleNamespace(ext=ext, ext_x=ext_x)


def labels_for(lblmode, pos, r=2):
    mx = "c%d" % pos
    if lblmode == "str":
        return mx, None
    if lblmode == "list":
        return ["c%d_r%d" % (pos, i) for i in range(r)], None
    return ["c%dM%d" % (pos, i) for i in range(r)], ["c%dm%d" % (pos, i) for i in range(r)]


def ref_extrema(cols, seq, xmode, lblmode):
    """order-free reference: returns ext, ext_x (or None), maxcase, mincase, mx, mn, mx_x, mn_x"""
    n = len(seq)
    ext = np.full((2, 2), NAN)
    ext_x = np.full((2, 2), NAN)
    maxc, minc = [None, None], [None, None]
    mx = np.full((2, n), NAN)
    mn = np.full((2, n), NAN)
    mx_x = np.full((2, n), NAN)
    mn_x = np.full((2, n), NAN)
    anyx = False
    for r in range(2):
        best = [None, None]  # (key, pos)
        for pos, ci in enumerate(seq):
            mm = mk_mm(cols, ci, pos, xmode)
            lm, ln = labels_for(lblmode, pos)
            lmr = lm if isinstance(lm, str) else lm[r]
            lnr = lmr if ln is None else (ln if isinstance(ln, str) else ln[r])
            vmax = mm.ext[r, 0]
            vmin = mm.ext[r, cols - 1]
            xs = (NAN, NAN) if mm.ext_x is None else (mm.ext_x[r, 0], mm.ext_x[r, cols - 1])
            if mm.ext_x is not None:
                anyx = True
            mx[r, pos], mn[r, pos] = vmax, vmin
            mx_x[r, pos], mn_x[r, pos] = xs
            if cols == 1:
                kmax, kmin = abs(vmax), abs(vmin)
            else:
                kmax, kmin = vmax, vmin
            # column 0: strictly larger key replaces; NaN is replaced by any number
            for col, key, val, x, lab, better in (
                (0, kmax, vmax, xs[0], lmr, lambda new, old: new > old),
                (1, kmin, vmin, xs[1], lnr if cols == 2 else lmr, lambda new, old: new < old),
            ):
                cur = best[col]
                if cur is None or (math.isnan(cur[0]) and not math.isnan(key)) or (not math.isnan(key) and not math.isnan(cur[0]) and better(key, cur[0])):
                    best[col] = (key, val, x, lab)
        for col in range(2):
            ext[r, col] = best[col][1]
            ext_x[r, col] = best[col][2]
            (maxc if col == 0 else minc)[r] = best[col][3]
    return dict(ext=ext, ext_x=ext_x if anyx else None, maxcase=maxc, mincase=minc, mx=mx, mn=mn, mx_x=mx_x, mn_x=mn_x)


def run_extrema(cols, seq, xmode, lblmode, usenum):
    from pyyeti import cla

    n = len(seq)
    cur = SimpleNamespace(ext=None, ext_x=None, maxcase=None, mincase=None)
    if usenum:
        for nm in ("mx", "mn", "mx_x", "mn_x"):
            setattr(cur, nm, np.full((2, n), NAN))
    for pos, ci in enumerate(seq):
        mm = mk_mm(cols, ci, pos, xmode)
        lm, ln = labels_for(lblmode, pos)
        keep = (mm.ext.copy(), None if mm.ext_x is None else mm.ext_x.copy(), copy.deepcopy(lm), copy.deepcopy(ln))
        try:
            cla.extrema(cur, mm, lm, ln, pos if usenum else None)
        except Exception as e:  # noqa
            return None, "ext_x/extrema raised %r at case %d" % (e, pos)
        if not (eqnan(keep[0], mm.ext) and (keep[1] is None or eqnan(keep[1], mm.ext_x)) and keep[2] == lm and keep[3] == ln):
            return cur, "extrema modified its input case data"
    return cur, None


def check_extrema(cols, seq, xmode, lblmode, usenum):
    msgs = []
    cur, m = run_extrema(cols, seq, xmode, lblmode, usenum)
    if m:
        msgs.append(m)
    if cur is None:
        return msgs, SimpleNamespace(ext=np.zeros(1), ext_x=None, maxcase=None, mincase=None)
    ref = ref_extrema(cols, seq, xmode, lblmode)
    if not eqnan(cur.ext, ref["ext"]):
        msgs.append("ext %s != true extrema %s" % (np.asarray(cur.ext).tolist(), ref["ext"].tolist()))
    if list(cur.maxcase) != ref["maxcase"] or list(cur.mincase) != ref["mincase"]:
        msgs.append("case labels max=%s min=%s != %s %s" % (cur.maxcase, cur.mincase, ref["maxcase"], ref["mincase"]))
    if ref["ext_x"] is None:
        if cur.ext_x is not None:
            msgs.append("ext_x should be None")
    elif cur.ext_x is None:
        if not np.all(np.isnan(ref["ext_x"])):  # None and all-NaN both mean "no abscissa known"
            msgs.append("abscissa ext_x None != %s" % (ref["ext_x"].tolist(),))
    elif not eqnan(cur.ext_x, ref["ext_x"]):
        msgs.append("abscissa ext_x %s != %s" % (None if cur.ext_x is None else np.asarray(cur.ext_x).tolist(), ref["ext_x"].tolist()))
    if usenum:
        for nm in ("mx", "mn", "mx_x", "mn_x"):
            if not eqnan(getattr(cur, nm), ref[nm]):
                msgs.append("per-case table %s %s != %s" % (nm, getattr(cur, nm).tolist(), ref[nm].tolist()))
    return msgs, cur


def sig_extrema(cols, seq):
    vals = [V1[c] if cols == 1 else P2[c][0] for c in seq]
    fl = set()
    for a, b in zip(vals, vals[1:]):
        if math.isnan(a) or math.isnan(b):
            fl.add("nan")
        elif (abs(a) == abs(b)) if cols == 1 else (a == b):
            fl.add("tie")
        elif a * b < 0:
            fl.add("flip")
        else:
            fl.add("gt" if b > a else "lt")
    return "n%d/%s" % (len(seq), "+".join(sorted(fl)) or "single")


def shard_extrema(sh):
    res = Result()
    cols, L = sh["cols"], sh["L"]
    menu = range(len(V1) if cols == 1 else len(P2))
    seen = set()
    for n in range(1, L + 1):
        for seq in itertools.product(menu, repeat=n):
            if seq[0] % sh["nsplit"] != sh["split"]:
                continue
            for xmode, lblmode, usenum in sh["variants"]:
                msgs, cur = check_extrema(cols, seq, xmode, lblmode, usenum)
                res.ev("extrema%d/%s/x-%s/%s/num%d" % (cols, sig_extrema(cols, seq), xmode, lblmode, usenum))
                res.transitions += 1
                res.traces += 1
                h = state_hash([np.asarray(cur.ext), repr(cur.maxcase), repr(cur.mincase),
                                b"" if cur.ext_x is None else np.asarray(cur.ext_x)])
                if h not in seen:
                    seen.add(h)
                for m in msgs:
                    mixed = xmode in ("alt", "alt2")
                    res.viol({"part": "extrema", "cols": cols, "seq": list(seq), "xmode": xmode, "lblmode": lblmode,
                              "usenum": usenum}, "cla.extrema %d-col: %s" % (cols, m),
                             kind="extrema%d-%s%s" % (cols, m.split()[0], "-mixedx" if mixed else ""))
    res.states += len(seen)
    if seen:
        res.sample({"part": "extrema", "cols": cols, "seq": list(seq), "variant": list(sh["variants"][0])})
    return res


# --------------------------------------------------------------- (b) real DR_Results recovery
T = np.array([0.0, 0.5, 1.0, 1.5])
RESP = [  # 3 rows x 4 abscissae; ties within a row, across cases, sign flips, NaN
    [[1, 2, 2, 0], [-1, -2, 0, -2], [0, 0, 0, 0]],
    [[2, 1, 0, 2], [-2, 1, -2, 0], [1, -1, 1, -1]],
    [[0, -1, -2, -1], [2, 2, 1, 0], [NAN, 1, 0, -1]],
    [[-2, -2, -1, -1], [0, NAN, 1, 2], [2, 0, -2, 0]],
    [[1, 0, 1, 0], [1, 0, -1, 0], [-2, 2, -2, 2]],
    [[2, 2, 2, 2], [-2, -2, -2, -2], [0, 1, NAN, 1]],
]
SRSFRQ = np.array([0.3, 0.7])
QS = (10, 25)


def make_dr(srs=True):
    from pyyeti import cla

    defaults = dict(se=0, uf_reds=(1, 1, 1, 1))
    drdefs = cla.DR_Def(defaults)

    @cla.DR_Def.addcat
    def _():
        name = "cat"
        desc = "verif category"
        units = "N"
        labels = ["row %d" % i for i in range(3)]
        drms = {"drm": np.eye(3)}
        drfunc = "sol.d"  # (a matrix product would smear NaNs over whole columns)
        histpv = "all"
        if srs:
            srspv = [0, 2]
            srsfrq = SRSFRQ
            srsQs = QS
        drdefs.add(**locals())

    DR = cla.DR_Event()
    DR.add(None, drdefs)
    return DR


def ref_recovery(kind, seq):
    n = len(seq)
    ext = np.full((3, 2), NAN)
    ext_x = np.full((3, 2), NAN)
    mxc, mnc = [None] * 3, [None] * 3
    mx = np.full((3, n), NAN)
    mn = np.full((3, n), NAN)
    mx_x = np.full((3, n), NAN)
    mn_x = np.full((3, n), NAN)
    for pos, ci in enumerate(seq):
        R = resp_of(kind, ci)
        for r in range(3):
            row = np.abs(R[r]) if kind == "frf" else R[r]
            best = None
            low = None
            for c, v in enumerate(row):
                if math.isnan(v):
                    continue
                if best is None or v > best[0]:
                    best = (v, T[c])
                if low is None or v < low[0]:
                    low = (v, T[c])
            if kind == "frf":
                low = (-best[0], best[1])
            mx[r, pos], mx_x[r, pos] = best
            mn[r, pos], mn_x[r, pos] = low
            if pos == 0 or best[0] > ext[r, 0]:
                ext[r, 0], ext_x[r, 0], mxc[r] = best[0], best[1], "case%d" % pos
            if pos == 0 or low[0] < ext[r, 1]:
                ext[r, 1], ext_x[r, 1], mnc[r] = low[0], low[1], "case%d" % pos
    return dict(ext=ext, ext_x=ext_x, maxcase=mxc, mincase=mnc, mx=mx, mn=mn, mx_x=mx_x, mn_x=mn_x)


def resp_of(kind, ci):
    R = np.array(RESP[ci], dtype=float)
    if kind == "frf":
        return R * np.exp(1j * (0.3 + ci + np.arange(4)))[None, :]
    return R


def check_recovery(kind, seq, ntotal=None):
    """feed the cases one by one into a real DR_Results; compare after each case"""
    from pyyeti import srs as srsmod

    msgs = []
    DR = make_dr()
    results = DR.prepare_results("mission", "event")
    n = ntotal or len(seq)
    per_case_srs = {q: [] for q in QS}
    hashes = []
    for pos, ci in enumerate(seq):
        R = resp_of(kind, ci)
        case = "case%d" % pos
        if kind == "time":
            sol = {(1, 1, 1, 1): SimpleNamespace(d=R.copy(), t=T.copy(), h=0.5)}
            results.time_data_recovery(sol, None, case, DR, n, pos)
        else:
            sol = {(1, 1, 1, 1): SimpleNamespace(d=R.copy(), f=T.copy())}
            results.frf_data_recovery(sol, None, case, DR, n, pos)
        res = results["cat"]
        ref = ref_recovery(kind, seq[: pos + 1])
        if not eqnan(res.ext, ref["ext"]):
            msgs.append("after %d cases: ext %s != true max/min %s" % (pos + 1, res.ext.tolist(), ref["ext"].tolist()))
        if not eqnan(res.ext_x, ref["ext_x"]):
            msgs.append("after %d cases: abscissa ext_x %s != %s" % (pos + 1, res.ext_x.tolist(), ref["ext_x"].tolist()))
        if res.maxcase != ref["maxcase"] or res.mincase != ref["mincase"]:
            msgs.append("after %d cases: labels %s/%s != %s/%s" % (pos + 1, res.maxcase, res.mincase, ref["maxcase"], ref["mincase"]))
        for nm in ("mx", "mn", "mx_x", "mn_x"):
            got = getattr(res, nm)[:, : pos + 1]
            if not eqnan(got, ref[nm]):
                msgs.append("after %d cases: per-case %s %s != %s" % (pos + 1, nm, got.tolist(), ref[nm].tolist()))
        if res.cases[: pos + 1] != ["case%d" % i for i in range(pos + 1)]:
            msgs.append("cases list %s" % (res.cases,))
        store = res.hist if kind == "time" else res.frf
        for i in range(pos + 1):
            want = resp_of(kind, seq[i])
            if not (np.all((store[i] == want) | (np.isnan(store[i]) & np.isnan(want)))):
                msgs.append("stored history of case %d is not the recovered response" % i)
        # SRS envelope = max over cases (NaN-ignoring) of the per-case spectra
        for q in QS:
            rr = R[[0, 2]].T
            if kind == "time":
                cur = srsmod.srs(rr, 2.0, SRSFRQ, q).T
            else:
                cur = srsmod.srs_frf(rr, T, SRSFRQ, q).T
            per_case_srs[q].append(cur)
            env = per_case_srs[q][0]
            for c in per_case_srs[q][1:]:
                env = np.where(np.isnan(env), c, np.where(np.isnan(c), env, np.maximum(env, c)))
            if not eqnan(res.srs.ext[q], env):
                msgs.append("SRS envelope (Q=%s) is not the maximum over cases" % q)
            for i in range(pos + 1):
                if not eqnan(res.srs.srs[q][i], per_case_srs[q][i]):
                    msgs.append("stored per-case SRS (Q=%s, case %d) wrong" % (q, i))
        hashes.append(state_hash([res.ext, res.ext_x, repr(res.maxcase), repr(res.mincase), res.mx, res.mn]))
    return msgs, hashes


def check_psd_recovery(seq):
    msgs = []
    DR = make_dr()
    results = DR.prepare_results("mission", "event")
    n = len(seq)
    freq = np.array([1.0, 2.0, 4.0, 5.0])
    hashes = []
    ext = None
    for pos, ci in enumerate(seq):
        R = np.abs(np.nan_to_num(np.array(RESP[ci], dtype=float), nan=0.5)) + (0.0 if ci != 4 else 1.0)
        case = "case%d" % pos
        res = results["cat"]
        if pos == 0:
            res.freq = freq
            res._psd = {}
        res._psd[case] = R.copy()
        results.psd_data_recovery(case, DR, n, pos)
        rms = np.array([math.sqrt(sum((freq[i + 1] - freq[i]) * (R[r, i] + R[r, i + 1]) / 2 for i in range(3))) for r in range(3)])
        vr = np.array([math.sqrt(sum((freq[i + 1] - freq[i]) * (freq[i] ** 2 * R[r, i] + freq[i + 1] ** 2 * R[r, i + 1]) / 2
                                     for i in range(3))) for r in range(3)])
        pk = 3.0 * rms
        with np.errstate(all="ignore"):
            fq = vr / rms
        if ext is None:
            ext = np.column_stack((pk, -pk))
            ext_x = np.column_stack((fq, fq))
            lab = [[case] * 3, [case] * 3]
        else:
            for r in range(3):
                if pk[r] > ext[r, 0]:
                    ext[r, 0], ext_x[r, 0], lab[0][r] = pk[r], fq[r], case
                if -pk[r] < ext[r, 1]:
                    ext[r, 1], ext_x[r, 1], lab[1][r] = -pk[r], fq[r], case
        if not (np.allclose(res.ext, ext, rtol=1e-12, atol=0, equal_nan=True) and np.allclose(res.ext_x, ext_x, rtol=1e-12, equal_nan=True)):
            msgs.append("psd recovery: ext/ext_x after %d cases %s != %s" % (pos + 1, res.ext.tolist(), ext.tolist()))
        if res.maxcase != lab[0] or res.mincase != lab[1]:
            msgs.append("psd recovery: labels %s %s != %s" % (res.maxcase, res.mincase, lab))
        if not np.allclose(res.rms[:, pos], rms, rtol=1e-12):
            msgs.append("psd recovery: rms column wrong")
        if not np.allclose(res.mx[:, pos], pk, rtol=1e-12) or not np.allclose(res.mn[:, pos], -pk, rtol=1e-12):
            msgs.append("psd recovery: per-case mx/mn wrong")
        if not np.array_equal(res.psd[pos], R):
            msgs.append("psd recovery: stored psd wrong")
        hashes.append(state_hash([res.ext, res.ext_x, repr(res.maxcase)]))
    return msgs, hashes


def check_recovery_order(kind, jorder):
    """load cases processed in ANY order of their case numbers (column j of the per-case tables belongs to case j,
    whenever it arrives): every permutation of four case numbers; the final container is compared with the order-free
    reference, column by column"""
    msgs = []
    DR = make_dr()
    results = DR.prepare_results("mission", "event")
    n = len(jorder)
    cis = [0, 2, 4, 5][:n]  # the response of case number j
    try:
        for j in jorder:
            R = resp_of(kind, cis[j])
            case = "case%d" % j
            if kind == "time":
                results.time_data_recovery({(1, 1, 1, 1): SimpleNamespace(d=R.copy(), t=T.copy(), h=0.5)}, None, case, DR, n, j)
            else:
                results.frf_data_recovery({(1, 1, 1, 1): SimpleNamespace(d=R.copy(), f=T.copy())}, None, case, DR, n, j)
    except Exception as e:  # noqa
        return ["cases stored in the order %s raised %r" % (list(jorder), e)]
    res = results["cat"]
    ref = ref_recovery(kind, cis)  # reference with the cases in case-number order
    if list(res.cases) != ["case%d" % i for i in range(n)]:
        msgs.append("cases stored in the order %s: .cases = %s, column j belongs to case j" % (list(jorder), res.cases))
    for nm in ("mx", "mn", "mx_x", "mn_x"):
        if not eqnan(getattr(res, nm), ref[nm]):
            msgs.append("cases stored in the order %s: per-case table %s is not in case-number order" % (list(jorder), nm))
    if not eqnan(res.ext, ref["ext"]):
        msgs.append("cases stored in the order %s: ext %s != envelope %s" % (list(jorder), res.ext.tolist(), ref["ext"].tolist()))
    store = res.hist if kind == "time" else res.frf
    for j in range(n):
        want = resp_of(kind, cis[j])
        if not np.all((store[j] == want) | (np.isnan(store[j]) & np.isnan(want))):
            msgs.append("cases stored in the order %s: stored history %d is not the response of case %d" % (list(jorder), j, j))
    return msgs


def shard_recovery(sh):
    res = Result()
    kind, L = sh["kind"], sh["L"]
    if sh["first"] == 0 and kind in ("time", "frf"):
        for n in (2, 3, 4):
            for jorder in itertools.permutations(range(n)):
                res.ev("recovery-%s/case-order/n%d" % (kind, n))
                res.traces += 1
                for m in check_recovery_order(kind, jorder):
                    res.viol({"part": "recovery-order", "kind": kind, "jorder": list(jorder)}, "%s_data_recovery: %s" % (kind, m), kind="rec-order-" + m.split(":")[-1][:25])
    seen = set()
    for n in range(1, L + 1):
        for seq in itertools.product(range(len(RESP)), repeat=n):
            if seq[0] != sh["first"]:
                continue
            if kind == "psd":
                msgs, hashes = check_psd_recovery(seq)
            else:
                msgs, hashes = check_recovery(kind, seq)
            seen.update(hashes)
            res.transitions += n
            res.traces += 1
            has_nan = any(np.isnan(np.array(RESP[c], dtype=float)).any() for c in seq)
            res.ev("recovery-%s/n%d/%s/%s" % (kind, n, "nan" if has_nan else "nonan", "rep" if len(set(seq)) < n else "distinct"))
            for m in msgs:
                res.viol({"part": "recovery", "kind": kind, "seq": list(seq)}, "%s_data_recovery: %s" % (kind, m),
                         kind="rec-%s-%s" % (kind, " ".join(m.split()[3:5])))
    res.states += len(seen)
    res.sample({"part": "recovery", "kind": kind, "seq": list(seq)})
    return res


# --------------------------------------------------------------- (c) form_extreme / merge
EVTAB = [  # event tables: rows x [max, min]; ties across events, NaN rows
    [[2, -1], [1, -2], [0, 0]],
    [[2, -2], [0, -1], [NAN, NAN]],
    [[1, -1], [3, -2], [1, -1]],
    [[-1, -3], [3, 0], [2, -2]],
]


def make_event(DR, ei, with_x, domain):
    r = DR.prepare_results("mission", "E%d" % ei)
    ext = np.array(EVTAB[ei], dtype=float)
    x = ext * 0 + 10.0 * (ei + 1) + np.arange(2)[None, :] + 0.1 * np.arange(3)[:, None] if with_x else None
    r.add_maxmin("cat", ext, ["E%dM%d" % (ei, i) for i in range(3)], ["E%dm%d" % (ei, i) for i in range(3)], x, domain)
    return r


def bracketings(ids):
    """all nestings of a list of leaf ids into a 1- or 2-level DR_Results tree (ordered)"""
    ids = list(ids)
    out = [("flat", [[i] for i in ids])]
    n = len(ids)
    # contiguous ordered partitions into groups (compositions), at least one group of size >= 2
    for cuts in itertools.product((0, 1), repeat=n - 1):
        groups, cur = [], [ids[0]]
        for c, i in zip(cuts, ids[1:]):
            if c:
                groups.append(cur)
                cur = [i]
            else:
                cur.append(i)
        groups.append(cur)
        if any(len(g) > 1 for g in groups):
            out.append(("nested", groups))
    return out


def ref_form(leaves, doappend, groups, nested):
    """reference envelope + labels for the top-level extreme"""
    # leaves: list of (name, ext, ext_x, maxlab, minlab)
    def combine(children, level_is_top):
        # children: list of (key, ext, ext_x, maxlab, minlab, is_ext)
        r = 3
        ext = np.full((r, 2), NAN)
        ext_x = np.full((r, 2), NAN)
        labs = [[None] * r, [None] * r]
        first = True
        for key, e, x, ml, nl, is_ext in children:
            for row in range(r):
                for col, better in ((0, lambda a, b: a > b), (1, lambda a, b: a < b)):
                    v = e[row, col]
                    cur = ext[row, col]
                    take = first or (math.isnan(cur) and not math.isnan(v)) or (not math.isnan(v) and not math.isnan(cur) and better(v, cur))
                    if take:
                        ext[row, col] = v
                        ext_x[row, col] = NAN if x is None else x[row, col]
                        low = (ml if col == 0 else nl)[row]
                        da = doappend
                        if is_ext and da == 2:
                            da = 1
                        lab = key if da in (0, 2) else (key + "," + low if da == 1 else low)
                        labs[col][row] = lab
            first = False
        return ext, ext_x, labs[0], labs[1]

    if not nested:
        ch = [(nm, e, x, ml, nl, False) for nm, e, x, ml, nl in leaves]
        return combine(ch, True)
    top = []
    byname = {l[0]: l for l in leaves}
    for gi, g in enumerate(groups):
        if len(g) == 1 and False:
            pass
        ch = [(byname[nm][0], byname[nm][1], byname[nm][2], byname[nm][3], byname[nm][4], False) for nm in g]
        e, x, ml, nl = combine(ch, False)
        top.append(("G%d" % gi, e, x, ml, nl, True))
    return combine(top, True)


def check_form(ids, with_x, doappend, brk, order_mode):
    from pyyeti import cla

    kindb, groups = brk
    DR = make_dr(srs=False)
    msgs = []
    leaves = []
    evs = {}
    for ei in ids:
        ev = make_event(DR, ei, with_x, "Time")
        nm = "E%d" % ei
        evs[nm] = ev
        c = ev["cat"]
        leaves.append((nm, c.ext.copy(), None if c.ext_x is None else c.ext_x.copy(), list(c.maxcase), list(c.mincase)))
    results = cla.DR_Results()
    if kindb == "flat":
        got = results.merge([evs["E%d" % g[0]] for g in groups])
        if got != ["E%d" % g[0] for g in groups]:
            msgs.append("merge returned %s" % (got,))
        names = [["E%d" % g[0]] for g in groups]
        nested = False
    else:
        names = []
        for gi, g in enumerate(groups):
            sub = cla.DR_Results()
            sub.merge([evs["E%d" % i] for i in g])
            results["G%d" % gi] = sub
            names.append(["E%d" % i for i in g])
        nested = True
    top_keys = list(results.keys())
    case_order = None
    if order_mode == "rev":
        case_order = list(reversed(top_keys))
    results.form_extreme("Env", case_order=case_order, doappend=doappend)
    ex = results["extreme"]["cat"]
    order = case_order or top_keys
    if nested:
        gmap = {"G%d" % gi: nm for gi, nm in enumerate(names)}
        groups_n = [gmap[k] for k in order]
        # group keys keep their names even when reordered
        leaves_n = leaves
        ref = _ref_nested(leaves_n, doappend, order, gmap)
    else:
        byname = {l[0]: l for l in leaves}
        ref = ref_form([byname[k] for k in order], doappend, None, False)
    e, x, ml, nl = ref
    if not eqnan(ex.ext, e):
        msgs.append("form_extreme: ext %s is not the envelope of the parts %s" % (ex.ext.tolist(), e.tolist()))
    if with_x and not eqnan(ex.ext_x, x):
        msgs.append("form_extreme: ext_x %s != %s" % (None if ex.ext_x is None else ex.ext_x.tolist(), x.tolist()))
    if list(ex.maxcase) != ml or list(ex.mincase) != nl:
        msgs.append("form_extreme: labels %s / %s != %s / %s (doappend=%d)" % (ex.maxcase, ex.mincase, ml, nl, doappend))
    if list(ex.cases) != list(order):
        msgs.append("form_extreme: cases %s != %s" % (ex.cases, order))
    return msgs, state_hash([ex.ext, repr(ex.maxcase), repr(ex.mincase)])


def _ref_nested(leaves, doappend, order, gmap):
    byname = {l[0]: l for l in leaves}

    def combine(children):
        r = 3
        ext = np.full((r, 2), NAN)
        ext_x = np.full((r, 2), NAN)
        labs = [[None] * r, [None] * r]
        first = True
        for key, e, x, ml, nl, is_ext in children:
            for row in range(r):
                for col, better in ((0, lambda a, b: a > b), (1, lambda a, b: a < b)):
                    v = e[row, col]
                    cur = ext[row, col]
                    take = first or (math.isnan(cur) and not math.isnan(v)) or (
                        not math.isnan(v) and not math.isnan(cur) and better(v, cur))
                    if take:
                        ext[row, col] = v
                        ext_x[row, col] = NAN if x is None else x[row, col]
                        low = (ml if col == 0 else nl)[row]
                        da = 1 if (is_ext and doappend == 2) else doappend
                        labs[col][row] = key if da in (0, 2) else (key + "," + low if da == 1 else low)
            first = False
        return ext, ext_x, labs[0], labs[1]

    top = []
    for gk in order:
        ch = [(nm,) + tuple(byname[nm][1:]) + (False,) for nm in gmap[gk]]
        e, x, ml, nl = combine(ch)
        top.append((gk, e, x, ml, nl, True))
    return combine(top)


# row label sets per event: overlapping sets, and the SAME set in other orders (a permutation needs re-ordering, not expansion)
ROWSETS16 = [["a", "b", "c"], ["b", "c", "d"], ["c", "a", "e"], ["a", "b", "c"], ["c", "b", "a"], ["b", "c", "a"]]
EVTAB16 = EVTAB + [[[3, -3], [-1, -1], [0, -4]], [[0, 0], [4, -1], [2, -5]]]


def make_dr_labels(labels_in):
    from pyyeti import cla

    drdefs = cla.DR_Def(dict(se=0, uf_reds=(1, 1, 1, 1)))

    @cla.DR_Def.addcat
    def _():
        name = "cat"
        desc = "verif category"
        units = "N"
        labels = list(labels_in)
        drms = {"drm": np.eye(3)}
        drfunc = "sol.d"
        drdefs.add(**locals())

    DR = cla.DR_Event()
    DR.add(None, drdefs)
    return DR


def check_form_rows(ids, with_x, doappend):
    """events whose row label sets differ: form_extreme expands them to the union of labels (documented); every
    label of the union must appear exactly once and carry the envelope over the events that have it"""
    from pyyeti import cla

    msgs = []
    results = cla.DR_Results()
    per_event = {}
    for ei in ids:
        labels = ROWSETS16[ei]
        DR = make_dr_labels(labels)
        r = DR.prepare_results("mission", "E%d" % ei)
        ext = np.array(EVTAB16[ei], dtype=float)
        x = ext * 0 + 10.0 * (ei + 1) + np.arange(2)[None, :] + 0.1 * np.arange(3)[:, None] if with_x else None
        r.add_maxmin("cat", ext, ["E%dM%d" % (ei, i) for i in range(3)], ["E%dm%d" % (ei, i) for i in range(3)], x, "Time")
        results["E%d" % ei] = r
        per_event["E%d" % ei] = (labels, ext, x, list(r["cat"].maxcase), list(r["cat"].mincase))
    try:
        results.form_extreme("Env", doappend=doappend)
    except Exception as e:  # noqa
        return ["form_extreme over events with different row labels raised %r" % (e,)]
    ex = results["extreme"]["cat"]
    got_labels = list(ex.drminfo.labels)
    union = []
    for k in per_event:
        for lab in per_event[k][0]:
            if lab not in union:
                union.append(lab)
    if sorted(got_labels) != sorted(union) or len(set(got_labels)) != len(got_labels):
        return ["form_extreme: row labels %s are not the union of the event labels %s" % (got_labels, union)]
    for lab in union:
        gi = got_labels.index(lab)
        for col, better in ((0, lambda a, b: a > b), (1, lambda a, b: a < b)):
            best = None
            for k, (labels, ext, x, ml, nl) in per_event.items():
                if lab not in labels:
                    continue
                i = labels.index(lab)
                v = ext[i, col]
                if best is None or (math.isnan(best[0]) and not math.isnan(v)) or (not math.isnan(v) and not math.isnan(best[0]) and better(v, best[0])):
                    low = (ml if col == 0 else nl)[i]
                    lbl = k if doappend in (0, 2) else (k + "," + low if doappend == 1 else low)
                    best = (v, NAN if x is None else x[i, col], lbl)
            g = ex.ext[gi, col]
            if not ((math.isnan(g) and math.isnan(best[0])) or g == best[0]):
                msgs.append("form_extreme (different row labels): row %r column %d is %r, envelope of the events that have this row is %r" % (lab, col, g, best[0]))
                continue
            glab = (ex.maxcase if col == 0 else ex.mincase)[gi]
            if not math.isnan(best[0]) and glab != best[2]:
                msgs.append("form_extreme (different row labels): row %r column %d is labelled %r, expected %r" % (lab, col, glab, best[2]))
            if with_x and not math.isnan(best[0]) and not (ex.ext_x is not None and ex.ext_x[gi, col] == best[1]):
                msgs.append("form_extreme (different row labels): abscissa of row %r column %d is %r, expected %r" % (lab, col, None if ex.ext_x is None else ex.ext_x[gi, col], best[1]))
    # the events themselves must not have been modified by the expansion
    for k, (labels, ext, x, ml, nl) in per_event.items():
        c = results[k]["cat"]
        if list(c.drminfo.labels) != labels or not eqnan(c.ext, ext) or list(c.maxcase) != ml:
            msgs.append("form_extreme modified event %s while expanding its rows" % k)
    return msgs


def check_copycat():
    """DR_Def.copycat with a LIST of categories whose uncertainty factors differ and a uf_reds argument holding None
    entries (None = keep that category's own factor): every copy gets ITS OWN source's factors where None is given"""
    from pyyeti import cla

    msgs = []
    ufs = {"A": (1.0, 1.0, 1.25, 1.0), "B": (1.1, 1.3, 1.5, 0.9), "C": (1.0, 2.0, 1.0, 1.2)}
    for order in itertools.permutations("ABC"):
        for ufarg in ((0, None, None, None), (None, 1.0, None, 2.0), (None, None, None, None), (0, 1, 1, 1)):
            drdefs = cla.DR_Def(dict(se=0, uf_reds=(1, 1, 1, 1)))
            for nm_ in "ABC":
                @cla.DR_Def.addcat
                def _():
                    name = nm_
                    desc = "cat " + nm_
                    labels = ["r1", "r2"]
                    drms = {"drm" + nm_: np.eye(2)}
                    drfunc = "sol.d"
                    uf_reds = ufs[nm_]
                    drdefs.add(**locals())
            try:
                drdefs.copycat(list(order), "_x", uf_reds=ufarg)
            except Exception as e:  # noqa
                msgs.append("copycat(%s, uf_reds=%s) raised %r" % (list(order), ufarg, e))
                continue
            for nm_ in order:
                want = tuple(u if a is None else a for u, a in zip(ufs[nm_], ufarg))
                got = tuple(drdefs[nm_ + "_x"].uf_reds)
                if got != want:
                    msgs.append("copycat(%s, uf_reds=%s): category %s_x has uf_reds %s, expected %s (None keeps the source category's own factor)" % (list(order), ufarg, nm_, got, want))
                if tuple(drdefs[nm_].uf_reds) != ufs[nm_]:
                    msgs.append("copycat modified the source category %s" % nm_)
    return msgs


def shard_copycat(sh):
    res = Result()
    for m in check_copycat():
        res.viol({"part": "copycat"}, m, kind="copycat-" + m.split(":")[-1][:25])
    res.ev("copycat", n=0)
    res.traces += 24
    res.sample({"part": "copycat"})
    return res


def shard_formrows(sh):
    res = Result()
    for n in (2, 3):
        for ids in itertools.permutations(range(len(ROWSETS16)), n):
            for with_x, doappend in itertools.product((True, False), (0, 1, 2, 3)):
                msgs = check_form_rows(ids, with_x, doappend)
                res.transitions += n
                res.traces += 1
                res.ev("form-rows/n%d/da%d/x%d" % (n, doappend, with_x))
                for m in msgs:
                    res.viol({"part": "formrows", "ids": list(ids), "with_x": with_x, "doappend": doappend}, m, kind="formrows-" + m.split(":")[0][-30:])
    res.sample({"part": "formrows"})
    return res


def shard_form(sh):
    res = Result()
    seen = set()
    nev = sh["nev"]
    for ids in itertools.permutations(range(len(EVTAB)), nev):
        for brk in bracketings(ids):
            for with_x, doappend, order_mode in itertools.product((True, False), (0, 1, 2, 3), ("ins", "rev")):
                msgs, h = check_form(ids, with_x, doappend, brk, order_mode)
                seen.add(h)
                res.transitions += nev
                res.traces += 1
                res.ev("form/%s/n%d/x%d/da%d/%s" % (brk[0], nev, with_x, doappend, order_mode))
                for m in msgs:
                    res.viol({"part": "form", "ids": list(ids), "brk": [brk[0], brk[1]], "with_x": with_x,
                              "doappend": doappend, "order": order_mode}, m, kind="form-" + m.split()[1])
    res.states += len(seen)
    res.sample({"part": "form", "ids": list(ids), "bracketing": [brk[0], brk[1]], "doappend": doappend})
    return res


# --------------------------------------------------------------- (c2) form_extreme with SRS data; inputs must not be modified
def _event_with_srs(DR, name, case_ids):
    results = DR.prepare_results("mission", name)
    n = len(case_ids)
    for pos, ci in enumerate(case_ids):
        R = np.nan_to_num(resp_of("time", ci), nan=0.25) * (1.0 + 0.3 * pos)
        sol = {(1, 1, 1, 1): SimpleNamespace(d=R.copy(), t=T.copy(), h=0.5)}
        results.time_data_recovery(sol, None, "%s-c%d" % (name, pos), DR, n, pos)
    return results


def _snapshot(res_cat):
    out = {k: np.array(getattr(res_cat, k), copy=True) for k in ("ext", "ext_x", "mx", "mn", "mx_x", "mn_x")}
    out["maxcase"] = list(res_cat.maxcase)
    out["mincase"] = list(res_cat.mincase)
    for q in QS:
        out["srs.ext%s" % q] = np.array(res_cat.srs.ext[q], copy=True)
        out["srs.srs%s" % q] = np.array(res_cat.srs.srs[q], copy=True)
    return out


def _snap_diff(a, b):
    for k in a:
        if isinstance(a[k], list):
            if a[k] != b[k]:
                return k
        elif not eqnan(a[k], b[k]):
            return k
    return None


def check_form_srs(order, nested, res):
    from pyyeti import cla

    msgs = []
    DR = make_dr()
    evdefs = {"EA": (0, 1), "EB": (4, 1, 3), "EC": (5, 0)}
    evs = {k: _event_with_srs(DR, k, v) for k, v in evdefs.items()}
    results = cla.DR_Results()
    if nested:
        g1 = cla.DR_Results()
        g1.merge([evs[order[0]], evs[order[1]]])
        results["G1"] = g1
        g2 = cla.DR_Results()
        g2.merge([evs[order[2]]])
        results["G2"] = g2
    else:
        results.merge([evs[k] for k in order])
    before = {k: _snapshot(evs[k]["cat"]) for k in evs}
    for rep in range(2):
        try:
            results.form_extreme("Env")
        except Exception as e:  # noqa
            return ["form_extreme with SRS data raised %r" % (e,)]
        ex = results["extreme"]["cat"]
        for q in QS:
            env = np.fmax.reduce([before[k]["srs.ext%s" % q] for k in order])
            if not eqnan(ex.srs.ext[q], env):
                msgs.append("form_extreme (pass %d): SRS envelope (Q=%s) is not the maximum over the events" % (rep + 1, q))
            if nested:
                g1env = np.fmax(before[order[0]]["srs.ext%s" % q], before[order[1]]["srs.ext%s" % q])
                if not eqnan(results["G1"]["extreme"]["cat"].srs.ext[q], g1env):
                    msgs.append("form_extreme (pass %d): SRS envelope of the first group is not the envelope of its parts" % (rep + 1))
                if not eqnan(ex.srs.srs[q][0], g1env) or not eqnan(ex.srs.srs[q][1], before[order[2]]["srs.ext%s" % q]):
                    msgs.append("form_extreme (pass %d): per-event SRS stored in the top-level extreme is wrong" % (rep + 1))
            else:
                for j, k in enumerate(order):
                    if not eqnan(ex.srs.srs[q][j], before[k]["srs.ext%s" % q]):
                        msgs.append("form_extreme (pass %d): per-event SRS #%d stored in the extreme is not that event's envelope" % (rep + 1, j))
        want = np.column_stack((np.fmax.reduce([before[k]["ext"][:, 0] for k in order]), np.fmin.reduce([before[k]["ext"][:, 1] for k in order])))
        if not eqnan(ex.ext, want):
            msgs.append("form_extreme (pass %d): ext is not the envelope of the events" % (rep + 1))
        for k in evs:
            d = _snap_diff(before[k], _snapshot(evs[k]["cat"]))
            if d:
                msgs.append("form_extreme (pass %d) modified the data of input event %s (%s)" % (rep + 1, k, d))
    return msgs


def shard_formsrs(sh):
    res = Result()
    for order in itertools.permutations(("EA", "EB", "EC")):
        for nested in (False, True):
            msgs = check_form_srs(order, nested, res)
            res.ev("formsrs/%s/%s" % ("".join(o[1] for o in order), "nested" if nested else "flat"))
            res.transitions += 3
            res.traces += 1
            for m in msgs:
                res.viol(dict(part="formsrs", order=list(order), nested=nested), m, kind="formsrs-" + m.split(":")[-1][:30])
    res.states += 12
    res.sample(dict(part="formsrs", order=list(order), nested=nested))
    return res


# --------------------------------------------------------------- (d) apply_uf
UFS = [(1, 1, 1, 1), (1.2, 1, 1, 1), (1, 1.2, 1, 1), (1, 1, 1.2, 1), (1, 1, 1, 1.2), (0.5, 1.2, 1.5, 2.0)]


def uf_system(form, layout):
    """modal system: nrb rigid-body + elastic (+ rf) modes.  layout: 'el','rb+el','el+rf','rb+el+rf','rb'"""
    nrb = 2 if layout.startswith("rb") else 0
    nel = 0 if layout == "rb" else 3
    nrf = 1 if layout.endswith("rf") else 0
    n = nrb + nel + nrf
    m = np.array([2.0, 1.5, 1.0, 1.2, 0.8, 1.0][:n]) if form != "mnone" else None
    kd = np.array([0.0] * nrb + [40.0, 90.0, 160.0][:nel] + [5000.0] * nrf)
    bd = np.array([0.0] * nrb + [0.5, 0.9, 1.4][:nel] + [0.0] * nrf)
    if form in ("full", "fullF"):
        k = np.diag(kd)
        b = np.diag(bd)
        mm = np.diag(m)
        for i in range(nrb, nrb + nel - 1):
            k[i, i + 1] = k[i + 1, i] = -6.0
            b[i, i + 1] = b[i + 1, i] = 0.1
            mm[i, i + 1] = mm[i + 1, i] = 0.05
        m, b = mm, b
        if form == "fullF":  # the same matrices in Fortran (column-major) memory order
            m, b, k = np.asfortranarray(m), np.asfortranarray(b), np.asfortranarray(k)
    else:
        k, b = kd, bd
    rf = np.arange(nrb + nel, n) if nrf else None
    nt = 4
    a = np.cos(0.7 * np.arange(n)[:, None] + 0.9 * np.arange(nt)[None, :]) * 2.0
    v = np.sin(0.4 * np.arange(n)[:, None] - 0.5 * np.arange(nt)[None, :])
    d = np.cos(1.3 * np.arange(n)[:, None] + 0.2 * np.arange(nt)[None, :]) * 0.1
    pg = np.arange(2 * nt, dtype=float).reshape(2, nt)
    return dict(m=m, b=b, k=k, nrb=nrb, nel=nel, nrf=nrf, rf=rf, n=n, sol=SimpleNamespace(a=a, v=v, d=d, pg=pg))


def ref_apply_uf(s, uf):
    """transcription of the documented scaling rules (docstring of DR_Event.apply_uf)"""
    ruf, euf, duf, suf = uf
    sol = s["sol"]
    n, nrb, rf = s["n"], s["nrb"], s["rf"]
    a, v = sol.a.copy(), sol.v.copy()
    d_st = np.zeros_like(a)
    d_dy = np.zeros_like(a)
    a[:nrb] *= ruf * suf
    v[:nrb] *= ruf * suf
    el = np.array([i for i in range(nrb, n) if rf is None or i not in set(rf.tolist())], dtype=int)
    M = np.eye(n) if s["m"] is None else (np.diag(s["m"]) if s["m"].ndim == 1 else s["m"])
    B = np.diag(s["b"]) if s["b"].ndim == 1 else s["b"]
    K = np.diag(s["k"]) if s["k"].ndim == 1 else s["k"]
    if el.size:
        ee = np.ix_(el, el)
        avt = M[ee] @ sol.a[el] + B[ee] @ sol.v[el]
        F = avt + K[ee] @ sol.d[el]
        kinv = np.linalg.inv(K[ee])
        d_st[el] = euf * suf * (kinv @ F)
        d_dy[el] = -euf * duf * (kinv @ avt)
        a[el] *= euf * duf
        v[el] *= euf * duf
    if rf is not None:
        a[rf] = 0
        v[rf] = 0
        d_st[rf] = euf * suf * sol.d[rf]
    return dict(a=a, v=v, d_static=d_st, d_dynamic=d_dy, d=d_st + d_dy, pg=sol.pg * suf)


def _save_hash(save):
    parts = []
    for k in sorted(save):
        v = save[k]
        if isinstance(v, np.ndarray):
            parts.append(v)
        elif isinstance(v, tuple):
            parts.extend(np.asarray(x) for x in v)
        else:
            parts.append(repr(v))
    return state_hash(parts)


def check_applyuf(form, layout, ufseq):
    from pyyeti import cla

    msgs = []
    s = uf_system(form, layout)
    sol = s["sol"]
    keep = copy.deepcopy(sol)
    mats0 = [None if s[x] is None else s[x].copy() for x in "mbk"]
    save = {}
    h0 = None
    hs = []
    for step, ui in enumerate(ufseq):
        uf = UFS[ui]
        out = cla.apply_uf(sol, uf, s["m"], s["b"], s["k"], s["nrb"], s["rf"], save)
        if not all((a is None and s[x] is None) or np.array_equal(a, s[x]) for a, x in zip(mats0, "mbk")):
            msgs.append("call %d (uf=%s): apply_uf modified the caller's m, b or k" % (step, uf))
            for a, x in zip(mats0, "mbk"):
                if a is not None:
                    s[x][...] = a
        fresh = cla.apply_uf(copy.deepcopy(keep), uf, s["m"], s["b"], s["k"], s["nrb"], s["rf"], None)
        ref = ref_apply_uf(s, uf)
        for nm in ("a", "v", "d", "d_static", "d_dynamic", "pg"):
            g, f, r = getattr(out, nm), getattr(fresh, nm), ref[nm]
            if not (g.shape == f.shape and np.array_equal(g, f)):
                msgs.append("call %d (uf=%s): .%s differs between shared cache and fresh cache" % (step, uf, nm))
            sc = max(1e-12, abs(r).max())
            if not abs(g - r).max() <= 1e-11 * sc:
                msgs.append("call %d (uf=%s): .%s is not scaled as documented (max err %.3g)" % (step, uf, nm, abs(g - r).max()))
        if not np.array_equal(out.d, out.d_static + out.d_dynamic):
            msgs.append("d != d_static + d_dynamic")
        if uf == (1, 1, 1, 1):
            for nm in ("a", "v", "d"):
                r = getattr(keep, nm).copy()
                if s["rf"] is not None and nm in ("a", "v"):
                    r[s["rf"]] = 0
                if nm == "d":
                    r[: s["nrb"]] = 0
                sc = max(1e-12, abs(r).max())
                if abs(getattr(out, nm) - r).max() > 1e-11 * sc:
                    msgs.append("unit factors changed .%s" % nm)
        for nm in ("a", "v", "d", "pg"):
            if not np.array_equal(getattr(sol, nm), getattr(keep, nm)):
                msgs.append("apply_uf modified its input solution .%s" % nm)
        if s["nel"] + s["nrf"] > 0:
            h = _save_hash(save)
            if h0 is None:
                h0 = h
            elif h != h0:
                msgs.append("cached intermediate results changed after call %d" % step)
            hs.append(h + repr(uf))
    return msgs, hs


def shard_applyuf(sh):
    res = Result()
    seen = set()
    for form, layout in itertools.product(("diag", "full", "fullF", "mnone"), ("el", "rb+el", "el+rf", "rb+el+rf", "rb")):
        for n in range(1, sh["L"] + 1):
            for ufseq in itertools.product(range(len(UFS)), repeat=n):
                msgs, hs = check_applyuf(form, layout, ufseq)
                seen.update(hs)
                res.transitions += n
                res.traces += 1
                res.ev("applyuf/%s/%s/n%d" % (form, layout, n))
                for m in msgs:
                    res.viol({"part": "applyuf", "form": form, "layout": layout, "ufseq": list(ufseq)}, "apply_uf: " + m,
                             kind="uf-" + " ".join(m.split()[-4:]))
    res.states += len(seen)
    res.sample({"part": "applyuf", "form": form, "layout": layout, "uf_sequence": [UFS[i] for i in ufseq]})
    return res


# --------------------------------------------------------------- driver
def shards(tier, seed):
    q = tier == "quick"
    out = []
    xm = ["all", "none", "alt", "alt2"]
    variants = [(x, l, u) for x in xm for l in ("str", "list", "both") for u in (0, 1)]
    variants += [("all+int", "str", 1), ("alt+int", "list", 0), ("none+int", "both", 1)]  # integer-typed cases mixed with non-integer ones
    for cols in (1, 2):
        nsplit = 6 if cols == 1 else 11
        for sp in range(nsplit):
            out.append(dict(part="extrema", cols=cols, L=(4 if cols == 1 else 3) if q else (5 if cols == 1 else 4),
                            split=sp, nsplit=nsplit, variants=variants))
    for kind in ("time", "frf", "psd"):
        for first in range(len(RESP)):
            out.append(dict(part="recovery", kind=kind, L=3 if q else 4, first=first))
    for nev in (2, 3):
        out.append(dict(part="form", nev=nev))
    out.append(dict(part="applyuf", L=2 if q else 3))
    out.append(dict(part="formsrs"))
    out.append(dict(part="formrows"))
    out.append(dict(part="copycat"))
    r = seed % len(out)
    return out[r:] + out[:r]


def run_shard(sh):
    return {"extrema": shard_extrema, "recovery": shard_recovery, "form": shard_form, "applyuf": shard_applyuf, "formsrs": shard_formsrs, "formrows": shard_formrows, "copycat": shard_copycat}[sh["part"]](sh)


def replay(case):
    p = case["part"]
    if p == "extrema":
        return check_extrema(case["cols"], tuple(case["seq"]), case["xmode"], case["lblmode"], case["usenum"])[0]
    if p == "recovery":
        if case["kind"] == "psd":
            return check_psd_recovery(tuple(case["seq"]))[0]
        return check_recovery(case["kind"], tuple(case["seq"]))[0]
    if p == "recovery-order":
        return check_recovery_order(case["kind"], tuple(case["jorder"]))
    if p == "copycat":
        return check_copycat()
    if p == "formrows":
        return check_form_rows(tuple(case["ids"]), case["with_x"], case["doappend"])
    if p == "form":
        return check_form(tuple(case["ids"]), case["with_x"], case["doappend"], (case["brk"][0], case["brk"][1]), case["order"])[0]
    if p == "applyuf":
        return check_applyuf(case["form"], case["layout"], tuple(case["ufseq"]))[0]
    if p == "formsrs":
        return check_form_srs(tuple(case["order"]), case["nested"], Result())
    return ["unknown case"]
