"""Runs inside a subprocess with LD_PRELOAD=libasan: every sequence of length
2..L over k values through an ASan build of c_rain (given .so), both entry
points.  Prints the sequence before each call so that the parent can name the
input on which AddressSanitizer aborted."""
import importlib.machinery
import importlib.util
import itertools
import sys

import numpy as np


def main():
    so, L, k = sys.argv[1], int(sys.argv[2]), int(sys.argv[3])
    loader = importlib.machinery.ExtensionFileLoader("c_rain", so)
    spec = importlib.util.spec_from_file_location("c_rain", so, loader=loader)
    mod = importlib.util.module_from_spec(spec)
    loader.exec_module(mod)
    n = 0
    out = sys.stdout
    for ln in range(2, L + 1):
        for seq in itertools.product(range(k), repeat=ln):
            out.write("SEQ %s\n" % (",".join(map(str, seq))))
            out.flush()
            a = np.array(seq, dtype=float)
            mod.rainflow(a)
            mod.rainflow(a, getoffsets=True)
            n += 1
    out.write("DONE %d\n" % n)


if __name__ == "__main__":
    main()
