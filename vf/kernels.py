"""Exploration kernels.  K2: explicit-state BFS over operation histories on
real objects (rebuilt by replay; states deduplicated by a concrete hash)."""
import hashlib

from vf.core import jdumps


def state_hash(parts):
    h = hashlib.sha1()
    for p in parts:
        if isinstance(p, (bytes, bytearray)):
            h.update(p)
        elif hasattr(p, "tobytes"):
            h.update(str(getattr(p, "shape", "")).encode())
            h.update(p.tobytes())
        else:
            h.update(repr(p).encode())
        h.update(b"|")
    return h.hexdigest()


def bfs(build, enabled, check, canon, depth, res, case_of, on_state=None, max_states=None):
    """Breadth-first search.  A state is the event history reaching it.

    build(hist)   -> fresh real object with the history replayed
    enabled(hist) -> list of events enabled after that history (small finite menu)
    check(obj, hist) -> list of violation messages (invariants + reference model)
    canon(obj)    -> hashable canonical form of the concrete state
    case_of(hist) -> JSON case for replay files
    Returns dict(states, transitions, max_depth, capped)."""
    root = build([])
    seen = {canon(root)}
    for m in check(root, []):
        res.viol(case_of([]), m, kind=m[:24])
    frontier = [[]]
    transitions = 0
    maxd = 0
    capped = False
    for level in range(depth):
        nxt = []
        for hist in frontier:
            evs = enabled(hist)
            for ev in evs:
                h2 = hist + [ev]
                child = build(h2)
                transitions += 1
                res.traces += 1
                k = canon(child)  # before check: check may finalise the object
                for m in check(child, h2):
                    res.viol(case_of(h2), m, kind=m[:24])
                if k not in seen:
                    seen.add(k)
                    if on_state is not None:
                        on_state(child, h2)
                    nxt.append(h2)
                    maxd = level + 1
            if max_states and len(seen) > max_states:
                capped = True
                break
        frontier = nxt
        if capped or not frontier:
            break
    res.states += len(seen)
    res.transitions += transitions
    return {"states": len(seen), "transitions": transitions, "max_depth": maxd, "capped": capped,
            "frontier_left": len(frontier)}
