"""Regenerates /verif/MANIFEST.json from the per-check metadata below and
validates it against the schema.  Run: /venv/bin/python -m vf.mkmanifest"""
import importlib
import json
import os

from vf.core import VERIF

PY = "/venv/bin/python"
SETUP = (
    "cd /verif && (test -d .deps/mpmath -a -d .deps/jsonschema -a -d .deps/networkx || "
    "/venv/bin/pip install -q --no-index --find-links /opt/veriftools/wheels --target /verif/.deps "
    "mpmath networkx jsonschema) && /venv/bin/python -m vf.selftest"
)
ALL = ["C%02d" % i for i in range(1, 21)]

# property -> (technique, level text, level note, design ref)
CHECKS = {}


def register(prop, technique, text, note, ref):
    CHECKS[prop] = (technique, text, note, ref)


register(
    "C05",
    "bounded-exhaustive enumeration of all reversal sequences (length/alphabet bound) against an ASTM reference model; ASan build of both C variants over the same space",
    "Every sequence up to the stated length over a small value alphabet (all tie patterns, plateaus, monotone and "
    "non-alternating input) is executed on all implementations (C built from the tree in both macro variants, "
    "Python, cyclecount wrappers) and compared bit for bit with an independent ASTM E1049 model; exhaustive "
    "within the bound, nothing beyond it.",
    "Trusted: the ASTM transcription in vf/ref/rain_ref.py, gcc, the length/alphabet bound (small-scope "
    "hypothesis: the algorithm's decisions depend only on order relations between adjacent ranges).",
    "DESIGN.md §3 C05",
)

register(
    "C08",
    "explicit-state BFS over send histories (advance / redo / jump-back / add-on) on the real generator objects, replayed from scratch, concrete-state hashing incl. generator frame locals, batch solver as reference model; solver-object reuse across complete generator runs and batch solves (all ordered pairs of three histories)",
    "All send histories up to the depth bound (nt=4) for every solver kind x order x partition x mass x start "
    "configuration are executed on real generators; after every transition the visible d/v columns, the Force "
    "array and (at the last step) finalize() are compared with the batch solver on the force history in effect, "
    "and get_f2x with the effect of each add-on. Exhaustive within depth/alphabet bounds. One solver object used for several generator runs and batch solves in sequence must reproduce fresh-object runs.",
    "Trusted: batch tsolve as reference (itself checked against closed form in C01/C17); two force and two add-on "
    "vectors per event; histories longer than the bound and nt>4 are not explored.",
    "DESIGN.md §3 C08",
)

register(
    "C16",
    "explicit-state exploration of all case/event/call histories (every order, count, tie and NaN pattern from a case menu) on the real cla containers against an order-free reference model",
    "Every sequence of cases up to the bound is fed to cla.extrema (1-/2-column, all abscissa/label/casenum variants), "
    "to real DR_Results through time/frf/psd data recovery (incl. SRS envelopes), to form_extreme over all "
    "bracketings/orders/doappend modes and to apply_uf over all call sequences sharing one cache; the container is "
    "compared with an order-free reference after every step. Exhaustive within the case menu and length bounds.",
    "Trusted: reference model in vf/checks/c16.py (transcribes the docstrings); per-case SRS values are pyYeti's own "
    "(C03); case menu of 6-11 cases over values {-2..2, NaN}; history length <=5.",
    "DESIGN.md §3 C16",
)

register(
    "C09",
    "exhaustive schedule exploration of the process pool: TLC state graph of tla/Pool.tla cross-checked with a Python enumerator, every schedule replayed through the real worker functions in a virtual pool (per-worker globals, real shared memory); footprint/race pass; forced-order runs on the real multiprocessing.Pool",
    "For every configuration (getresp x ic x stype x time x 1-D/2-D; fdepsd resp) every feasible (worker,task) "
    "completion history for LF<=4 tasks and W<=3 workers is executed on the real initialisers/worker functions and "
    "every output is compared byte for byte with the serial result; per-task write sets are shown disjoint and "
    "independent of other tasks' outputs; the pool model is validated against real mp.Pool runs with forced orders.",
    "Trusted: task atomicity (checked by the footprint pass, not assumed), the 12-line TLA+ model of in-order dispatch "
    "(cross-checked with the enumerator and with real-pool runs), fork start method; LF<=4, W<=3.",
    "DESIGN.md §3 C09",
)

register(
    "C01",
    "bounded-exhaustive product grid over damping regimes (points on both sides of every coefficient-formula switch) x w*h x order x forces x ICs x solver x option variants x mode orderings, against a 40-digit mpmath closed-form reference, equation-of-motion residual and pairwise solver agreement",
    "Every combination of the mode alphabet (rigid-body damped/undamped across both cut-offs, under/critical-band/"
    "over-damped, residual-flexibility), step-size ladder, hold order, force history, initial-condition form, solver "
    "(SolveUnc uncoupled and complex-mode paths, SolveExp2, SolveExp1) and option variant (m None/1-D/2-D, rb "
    "auto/explicit/bool, pre_eig, every ordering of rb/el/rf incl. interleaved) is executed and compared with the "
    "exact solution; exhaustive over the alphabet, nothing between alphabet points.",
    "Trusted: mpmath expm reference (vf/ref/ode_ref.py); frozen tolerance table c01_tol.json (100x the worst error "
    "of the pinned tree per ill-conditioned cell, round-off floor elsewhere); alphabet values.",
    "DESIGN.md §3 C01",
)
register(
    "C07",
    "bounded-exhaustive grid over matrix structures x ||Ah|| on both sides of every Pade/route switch x h x order x B x half x function, against a 50-digit Van Loan reference; SSModel round-trip / sampled-response / bilinear-equivalence over method x system x h; explicit-state exploration of every c2d call history (length <= 3 over method x h) on one SSModel object",
    "All structure x norm x step x option x function combinations are evaluated (the Pade branch actually taken is "
    "recorded by wrapping the helper and reported as the signature) and E, the two integrals, P, Q and one hold step "
    "are compared with the exact values; every discretisation method is round-tripped and its sampled response "
    "compared with the exactly integrated held-input response. Every c2d call history on one SSModel object must equal fresh-object conversions and leave earlier results and the model itself unchanged.",
    "Trusted: mpmath expm; normwise max-abs error measure with tolerance 2e3*eps*max(1,||Ah||); matrix sizes <= 4.",
    "DESIGN.md §3 C07",
)

register(
    "C02",
    "bounded-exhaustive product grid over systems (regime alphabet, all rb/el/rf orderings, coupled/complex variants) x frequency sets x complex forces x all incrb forms x rf_disp_only x pre_eig x solver, against an extended-precision reference solution of the dynamic-stiffness equation; solvepsd against an independent double loop over all drm None-patterns; explicit-state exploration of every fsolve/tsolve call history (length <= 3) on one solver object; input-immutability over memory layouts",
    "Every system x frequency-set x force x incrb (8 subsets, permuted spelling, deprecated integers) x rf_disp_only x "
    "solver combination is executed; d, v, a are compared element by element with the reference solution of "
    "(-W^2 M + iWB + K) d = F (conditioning-graded tolerance), exact zeros are demanded where the options zero a "
    "response, and both solvers are held to the same reference; solvepsd is recomputed independently. Every call history up to length 3 on one SolveUnc(h) object must reproduce fresh-object results, and inputs are never modified.",
    "Trusted: numpy complex solve + 3 steps of iterative refinement in long double as reference; tolerance "
    "200*eps*(sum|terms|)/|H| per element (diagonal) or 1e3*eps*cond(H) (coupled, x50*cond(eigvec) for the complex-mode path).",
    "DESIGN.md §3 C02",
)

register(
    "C17",
    "bounded-exhaustive product grid (mass/damping/stiffness forms incl. singular mass x step ladder x forces x ICs x rf partitions x nonlinear-term definitions; CDF layouts x order x ICs) against independent transcriptions of the documented recurrences; step-halving ladders against the exact solution; boundedness over 200 steps; solver-object reuse histories (another load case on the same object, earlier solution re-checked)",
    "Every form/option combination is executed and compared at round-off with a from-the-docstring implementation of "
    "the Newmark-Beta recurrence (start-up, 1/3 force average, extrapolated last step, central differences, nonlinear "
    "terms) and of the coupled-damping-force recurrence (with per-mode coefficients from mpmath, not get_su_coef); "
    "convergence order and boundedness are decided on finite ladders. A solver object reused for another load case must reproduce a fresh object's answer and leave the earlier solution untouched.",
    "Trusted: the transcriptions ref_newmark/ref_cdf in vf/checks/c17.py; 3-DOF systems; ladder of 5 step sizes.",
    "DESIGN.md §3 C17",
)

register(
    "C03",
    "bounded-exhaustive enumeration of ALL signals of length <= L over a 4-letter alphabet (packed as columns) x sr/fn x Q x stype x ic x time x peak x eqsine x frequency-vector order, against the exact two-state SDOF response to the linearly interpolated input; algebraic invariants; resampling contract; closed forms of srs_frf/vrs/Miles; explicit-state exploration of every srs call history (length <= 3 over a 6-call menu) with caller arrays overwritten in place, against the same call made first in a pristine process",
    "Every signal of the bounded space and every option combination is pushed through srs and the returned response "
    "histories, time vectors, windows and spectra are compared with an independent exact response (one-step matrices "
    "from a 40-digit expm, long-double stepping, ic rule and one-cycle padding taken from the statement); the peak "
    "statistic, eqsine, scaling, column-order, packaging and pvelo/pacce relations are checked on every case. Call histories with in-place reused input arrays must reproduce, bit for bit, the result of the same call made first in a fresh process.",
    "Trusted: reference in vf/checks/c03.py + vf/ref/ode_ref.py; tolerance 2000*eps*(sr/fn)^2 (xN/20 for relacce); "
    "signal alphabet {-1,0,.5,1}, lengths <= 5 plus three longer fixed records.",
    "DESIGN.md §3 C03",
)

register(
    "C04",
    "bounded-exhaustive enumeration of every sparsity pattern of small shapes (incl. all string partitions of a 10-row column) x magnitude classes x real/complex x every write configuration x every read mode and API, plus boundary sizes at each format limit and all short multi-matrix files; explicit-state exploration of write/read event histories on one OP4 object (all ordered pairs + triples over 7 configurations)",
    "Each matrix of the bounded space is written with every binary/endian/layout/digits/input-type combination and "
    "read back through every read mode and API; name, shape, form, type and values (bit-exact for binary, "
    "0.5*10^-digits for ASCII) must be recovered, dense and sparse reads must agree and dir must list the same. "
    "Boundary sizes (65536-row bigmat switch, 16384-word string limit, 3000-value struct/fromfile cut-over) are "
    "single cases on both sides of each limit. Every ordered pair of write configurations on one OP4 object must produce the byte-identical files a fresh object writes.",
    "Trusted: numpy/scipy.sparse for building inputs; shapes <= 3x3 and 10x1 for the pattern enumeration; value "
    "classes chosen to reach 3-digit exponents, denormals and DBL_MAX.",
    "DESIGN.md §3 C04",
)

register(
    "C11",
    "bounded-exhaustive enumeration of physical encodings produced by independent OUTPUT4/OUTPUT2 encoders that are re-bound on every run to the Nastran-written sample files (byte-for-byte reproduction); explicit-state exploration of reader positions over all skip/read sequences; earlier reader results re-checked at the end of each read history; every ordered pair/triple of (file, method) events on one OP4 reader object over files differing in text/binary, byte order, key width, precision, layout",
    "For every matrix of the bounded space every permitted encoding (precision, key width, byte order, layout, every "
    "composition of each non-zero run into strings, trailer convention, ASCII exponent letter/width/1P/I16/name "
    "padding; OP2 header label, EOF key, table records in every composition of parts, all block orders with repeated "
    "names) is generated and decoded by pyYeti; decoded content, listings incl. byte ranges, every subset read and the "
    "file offset after every skip/read sequence are compared with the encoder's ground truth. Results returned earlier by a reader object must stay valid after later reads, and one OP4 object reading files of different encodings in any order must decode each as a fresh object does.",
    "Trusted: the encoders, as far as they reproduce all 44 sample files on every run; 64-bit OP2 matrix blocks are by "
    "analogy (no Nastran sample).",
    "DESIGN.md §3 C11",
)

register(
    "C12",
    "bounded-exhaustive grid over every decade of the double range x a mantissa alphabet built from the rounding boundaries of every precision x sign x formatter, against a brute-force best-representation oracle; all short type mixes and periodic long mixes of card fields x writers x fixed/comma form; reader coroutine over all short multi-card files",
    "Every (decade, mantissa, sign, formatter) point is formatted, checked for exact width, parsed back with the "
    "Nastran number reader (must be a float) and held to half a unit of the last digit the width allows; every card "
    "type mix for 1-5 fields and every phase of periodic mixes for 6-60 fields is written in small/large/double form "
    "and as a comma card and read back field for field, also inside multi-card files in every order.",
    "Trusted: the best-representation search in vf/checks/c12.py (legal forms: fixed with decimal point, exponent "
    "without letter, D form for double style); mantissa alphabet + salt pool.",
    "DESIGN.md §3 C12",
)

register(
    "C13",
    "bounded-exhaustive enumeration of id lists (every subset of {1..7}, all run structures, lengths 1..40 for the wrap arithmetic), table lengths 1..17 x field widths, DMIG index sets x forms x types x every sparsity pattern <=3x3 x value classes, GRID option combinations and CORD2 chains, each written and read back",
    "Every list/table/matrix/card of the bounded space is written by the bulk-data writer and recovered by the "
    "corresponding reader: same ids in the same order, same DOF labels, values to the precision of the written format "
    "(DMIG compared on the returned index, everything not returned must be zero).",
    "Trusted: io.StringIO round trips; id alphabets chosen to hit every line-fill modulus and THRU run structure.",
    "DESIGN.md §3 C13",
)

register(
    "C18",
    "bounded-exhaustive enumeration of all base-set assignments to 3 nodes and all per-DOF 6-letter strings, every ordered pair of set expressions, every DOF-request form x strictness, and all small inputs of the locate helpers, against a pure-set model of the USET lattice and the helpers' defining equations; addgrid call histories with run-time-built set strings",
    "Every USET table of the bounded space is built with make_uset and every partition vector (base sets, supersets, "
    "minor-from-major for all ordered pairs incl. unions) and DOF look-up is compared with a set-theoretic model "
    "(refusal iff the minor set is not contained); the index helpers are checked on all small inputs. Histories of addgrid calls with set strings built at run time must each carry exactly their own sets.",
    "Trusted: the set hierarchy transcribed from the docstring diagram; 3 nodes (2 grids + 1 scalar point).",
    "DESIGN.md §3 C18",
)

register(
    "C14",
    "bounded-exhaustive enumeration of every CORD2R/C/S chain of depth 1-3 (each system defined in its parent's own coordinate type) x geometry sets x points x query systems x reference-point forms, against an independent closed-form resolution of the chain; RBE3 option grid; basic-system replacement; incremental addgrid call histories (one grid per call, systems by id, shared coordref dictionaries)",
    "For every chain every grid is entered in every system and queried in every system and in basic (as grid id, as "
    "definition and as xyz); the resolved 5x3 coordinate info, the returned coordinates (compared as points), the "
    "local-frame rigid-body modes, rbmove/rbcoords identities, RBE3 rigid-motion reproduction and the invariants of "
    "replace_basic_cs are checked against own geometry. The same table built by incremental addgrid calls and through a shared coordref dictionary must equal the single-call table.",
    "Trusted: closed-form maps in vf/checks/c14.py; fixed non-axis-aligned geometry sets; points away from the polar axes.",
    "DESIGN.md §3 C14",
)

register(
    "C19",
    "bounded-exhaustive enumeration of every PSD specification of 1-3 segments over a slope alphabet placed on both sides of the s=-1 special case, every input-scale x output-scale x overlap x frange x extendends combination of rescale, every (p,q,n,pts,axis) of resample and EVERY time-step sequence up to length 6 over a 7-letter step alphabet x clean-up option variants for fixtime, against 40-digit integrals, brute-force band integrals and a brute-force nearest/previous-sample model",
    "Every specification / band layout / resampling ratio / time-vector pattern of the bounded space is run through the "
    "real routine and compared with the defining integral or a brute-force model: area and interp against the log-log "
    "interpolant, each rescale output band against the overlap integral of the piecewise-constant input, resample "
    "length/constants/retained samples/positions/accuracy, and for fixtime uniformity of the time base and "
    "nearest-or-previous selection on the cleaned record (also through the numba-branch source run as plain Python).",
    "Trusted: the references in vf/checks/c19.py; band-edge convention transcribed from the rescale docstring; "
    "resample accuracy bounds calibrated (3x observed); step alphabet {dt,.9dt,1.1dt,2dt,3dt,0,-dt}, length <= 6.",
    "DESIGN.md §3 C19",
)

register(
    "C20",
    "bounded-exhaustive grid over (p, c) in an 8x8 alphabet x every n in 2..60 plus a ladder to 1e6 x every rank 1..12, against independent 30-50 digit evaluations of the defining probability statements (non-central t by quadrature, normal coverage integral, chi-square tail, binomial tails)",
    "Every grid point is evaluated: ksingle*sqrt(n) must be the c-quantile of the non-central t distribution, kdouble "
    "must satisfy both documented equations, both are monotone in p and c and approach the normal quantile on the n "
    "ladder; order_stats r / n must be extreme (meets the confidence, the adjacent integer does not), p and c invert "
    "each other, scalar and broadcast forms agree.",
    "Trusted: mpmath quadrature/special functions; ties at double rounding accepted either way; (p,c) on a grid, n ladder finite.",
    "DESIGN.md §3 C20",
)

register(
    "C10",
    "bounded-exhaustive enumeration of every signal up to length 7 over a 6-level alphabet (integer levels x 2 tolerances, and an epsilon alphabet producing sub-tolerance steps) on both findap definitions; every cycle table of short signals and synthetic on-edge tables x all bin specifications x right x check_bounds; product grid of fdepsd options x deterministic signals, against a brute-force reversal finder, brute-force interval membership, an ASTM rainflow recount and the defining formulas",
    "Every signal of the bounded space goes through both findap variants (the numba-branch source is executed as plain "
    "Python) and is held to the stated invariants and, where no sub-tolerance step exists, to a brute-force "
    "reversal finder; every table x bin specification is compared with brute-force half-open interval membership and "
    "count conservation; every fdepsd configuration is recounted with an independent rainflow and checked for "
    "monotone counts, Amax<=srs, G2>=G1, damage indicators, variance/peak relations, Rayleigh test damage and "
    "amplitude-squared scaling.",
    "Trusted: ASTM reference (vf/ref/rain_ref.py), brute-force models in vf/checks/c10.py; numba not installed; "
    "SDOF responses recomputed with pyYeti's filter coefficients (C03).",
    "DESIGN.md §3 C10",
)

register(
    "C15",
    "bounded-exhaustive product grid over source and load spring-mass networks x EVERY ordered interface selection up to 3 DOF x boundary form (recovery matrix; Craig-Bampton partition vector with b-set first/last/interleaved/unsorted; truncated modes) on both sides x damping (none, proportional, dashpots, non-symmetric) x frequency set placed around the coupled resonances x every unit and a dense force x solver route, against a direct solve of the physically coupled system",
    "Every model pair x interface x form x damping x frequency x force combination is run through calcAM/ntfl and the "
    "interface acceleration and force are compared with the solution of the physically coupled equations (constraint "
    "elimination, direct complex solve); apparent mass x accelerance = I, TAM = SAM + LAM, R = diag(TAM^-1 SAM) and "
    "AM(w->0) = physical mass are checked; the SolveUnc, FreqDirect and precomputed-array routes must agree.",
    "Trusted: vf/ref/cb_ref.py (network assembly, coupling, textbook Craig-Bampton reduction); 1-D networks; "
    "tolerance graded by the conditioning of the accelerances and of the reference solve.",
    "DESIGN.md §3 C15",
)

register(
    "C06",
    "bounded-exhaustive enumeration over generated free 3-D structures x EVERY boundary-grid subset up to 3 x retained modes {0,1,all} x EVERY permutation of the boundary grids x b-set first/last x reference-DOF choice x output systems {basic, rotated, cylindrical, spherical}^nb x unit conversions x reorder, plus grounded / moved-geometry variants; cbtf over b-set layouts x damping x acceleration forms x frequencies incl. 0 Hz x cache histories; cgmass, cbconvert, uset_convert, cbreorder over option grids - against an independent structure generator, textbook Craig-Bampton reduction and the defining equations",
    "Every model/option combination of the bounded space is reduced independently to Craig-Bampton form and run "
    "through cbcheck; the returned matrices, uset, three rigid-body mode sets, implied 6x6 mass/cg, K*rb, fixed-base "
    "frequencies and modal effective mass (+ boundary residual = total mass) are compared with the underlying "
    "structure; grounding and geometry errors must appear exactly as the structure's grounding force / moved "
    "geometry; cbtf must satisfy the full equations with the enforced acceleration for every call of every cache "
    "history; conversions and reorderings must be undone by their inverses and leave spectrum, mass properties and "
    "recovered responses unchanged.",
    "Trusted: vf/ref/cb_ref.py (structure generator, rigid maps, CB reduction); the printed report is not parsed; "
    "3-5 node structures.",
    "DESIGN.md §3 C06",
)


def build():
    checks = []
    for prop in ALL:
        if prop not in CHECKS:
            continue
        if not os.path.exists(os.path.join(VERIF, "vf", "checks", prop.lower() + ".py")):
            continue
        tech, text, note, ref = CHECKS[prop]
        if prop in WAVE3:
            text = text + " Added during the seeded-change waves (same exhaustive style, see DESIGN.md 3.21): " + WAVE3[prop]
        checks.append(
            {
                "property_id": prop,
                "quick_cmd": "cd /verif && %s -m vf.run %s --tier quick" % (PY, prop),
                "thorough_cmd": "cd /verif && %s -m vf.run %s --tier thorough" % (PY, prop),
                "evidence_file": "/verif/evidence/%s.json" % prop,
                "replay_cmd_template": "cd /verif && %s -m vf.run %s --replay {path}" % (PY, prop),
                "engine": "vf",
                "level_claimed": {"category": "model_checking", "text": text, "design_ref": ref},
                "level_note": note,
                "technique": tech,
            }
        )
    claimed = {c["property_id"] for c in checks}
    na = [
        {"property_id": p, "reason": NOT_BUILT.get(p, "check not built yet in this round (planned, see DESIGN.md §3); not claimed until its check exists")}
        for p in ALL
        if p not in claimed
    ]
    man = {
        "version": 1,
        "setup_cmd": SETUP,
        "hooks": {
            "guard": "PYYETI_VERIF",
            "enable": "no source hooks exist: all interposition is harness-side (module attribute replacement, "
            "frame inspection); PYYETI_VERIF is unused by /repo",
            "baseline_off_cmd": "cd /repo && /venv/bin/python -m pytest -ra -q -p no:cacheprovider --timeout=900 "
            "--continue-on-collection-errors",
            "source_commits": [],
            "add_only": True,
        },
        "engines": [
            {
                "name": "vf",
                "path": "/verif/vf",
                "serves_properties": sorted(claimed),
                "kind_free_text": "hand-written explicit-state / bounded-exhaustive explorer in Python driving the real "
                "pyYeti code from /repo's working tree: K1 exhaustive product grids, K2 BFS over API-call histories "
                "on real objects, K3 exhaustive worker-schedule exploration (TLC model of the pool cross-checked and "
                "replayed against the real worker functions)",
            }
        ],
        "checks": checks,
        "notes": "Fix commits and known findings: /verif/known_findings.json; design: /verif/DESIGN.md.",
        "not_applicable": na,
    }
    return man


NOT_BUILT = {}
WAVE3 = {
    "C01": "vector damping on coupled systems with/without pre_eig; d0 with static_ic; force histories in integer/float32/list/Fortran/strided forms. Round 4: rf/rb partitions listed in every order (slice and index-vector paths), heavy-mass modes, Fortran-ordered matrices with immutability checks.",
    "C02": "0 Hz anywhere / repeated in the frequency vector; non-contiguous rigid-body partitions; complex diagonal systems with rb/rf modes; complex mass; uncertainty factors below 1. Round 4: gyroscopic damping, in-place frequency-array histories, pre_eig with vector mass.",
    "C03": "input-form axis (all integer dtypes incl. unsigned, lists, Fortran, strided; integer/list frequencies) x ic x rolloff. Round 4: frequency order in the roll-off contract.",
    "C04": "form inference over all 4x4 0/1 and 3x3 ternary/complex matrices in dense and sparse containers; numeric dtype/container axis. Round 4: byte-order dtypes, ASCII dimension limits.",
    "C05": "every narrow real dtype with values at its limits. Round 4: pandas Series inputs, scalings to the ends of the double range.",
    "C06": "em_filt invariance of every returned quantity. Round 4: reorder=False for every b-set placement, force-unit invariance of cbtf, integer-dtype b-set vectors.",
    "C07": "lower-triangular and sign-definite singular structures; SSModel conversion chains c2d->d2c->c2d->d2c with attribute checks. Round 4: steps above 1 in the quick tier, integer-typed A / h forms.",
    "C08": "reused caller-side force buffer histories; non-symmetric coupled kinds; integer-typed F0.",
    "C09": "every (frequency count, pool size 1..16) pair under three canonical model schedules; all peak methods incl. a summing callable. Round 4: parallel call histories, frequency-vector / record forms.",
    "C10": "input-form axis over findap (both branches), rainflow, sigcount, fdepsd; in-place mutation histories of one array object for fdepsd. Round 4: wide float16 / float32 records.",
    "C11": "per-matrix layouts and number formats in one file; container kind per read mode; ASCII lines beyond 80 columns; next_db_info/goto_next from every file position. Round 4: 65536-row boundary with either sign of the row count, table and matrices sharing a name.",
    "C13": "id containers of every integer dtype; SET lines wider than 72 columns. Round 4: tables ending at the origin, scalar points in uset2bulk tables.",
    "C14": "every scalar-point block placement x q-set grid; integer-typed location queries. Round 4: replace_basic_cs invariants, rbmove immutability, rbgeom reference-index forms.",
    "C15": "precomputed apparent masses in all six memory layouts used twice; lumped mass as a vector. Round 4: solver reuse over frequency vectors, real-typed free acceleration.",
    "C16": "integer-typed cases in extrema histories; Fortran-ordered matrices and input immutability in apply_uf histories; permuted row-label sets. Round 4: case-number orders, copycat factor lists.",
    "C17": "force histories in integer/list/Fortran/strided forms.",
    "C18": "locate helpers over every integer dtype and mixed dtype pairs. Round 4: index forms of flippv/index2bool, plain [id, dof] tables, (n,1) id columns.",
    "C19": "input-form axis over area/interp/rescale/resample/fixtime. Round 4: resample grid to p, q <= 7 with overshoot lengths.",
    "C20": "integer-dtype forms of n and r. Round 4: call histories over a menu repeating arguments with different tol.",
    "C12": "long free-field lines (hand-written cards with full-precision reals).",
}


def main():
    man = build()
    try:
        import jsonschema

        with open("/root/.vp/MANIFEST.schema.json") as f:
            jsonschema.validate(man, json.load(f))
    except FileNotFoundError:
        pass
    with open(os.path.join(VERIF, "MANIFEST.json"), "w") as f:
        json.dump(man, f, indent=1)
        f.write("\n")
    print("MANIFEST.json: %d checks, %d not_applicable" % (len(man["checks"]), len(man["not_applicable"])))


if __name__ == "__main__":
    main()
