#!/bin/bash
# usage: mut.sh <patchfile|-> <PROP> [tier]  : apply a patch to /repo, run the check, always restore
# with '-' the caller has already edited /repo
P=$1; PROP=$2; TIER=${3:-quick}
if [ "$P" != "-" ]; then git -C /repo apply "$P" || { echo "patch does not apply"; exit 9; }; fi
git -C /repo diff --stat | tail -1
cd /verif && timeout 1500 /venv/bin/python -m vf.run $PROP --tier $TIER 2>&1 | tail -${LINES_OUT:-8}
rc=${PIPESTATUS[0]}
git -C /repo checkout -- .
echo "rc=$rc; repo restored: $(git -C /repo status --short | wc -l) dirty files"
