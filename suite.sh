#!/bin/bash
# run the repository's baseline test command serially and compare with BASELINE.json
cd /repo && /venv/bin/python -m pytest -ra -q -p no:cacheprovider --timeout=900 --continue-on-collection-errors --junitxml=/tmp/vf_suite.xml > /tmp/vf_suite.log 2>&1
/venv/bin/python - <<'PY'
import json, xml.etree.ElementTree as ET
base = json.load(open('/root/.vp/BASELINE.json'))
stable = set(base['stable_pass'])
root = ET.parse('/tmp/vf_suite.xml').getroot()
passed = set()
for tc in root.iter('testcase'):
    name = tc.get('classname') + '::' + tc.get('name')
    if not any(c.tag in ('failure', 'error', 'skipped') for c in tc):
        passed.add(name)
missing = sorted(stable - passed)
print("SUITE: %d passed, %d of %d baseline tests passing; missing: %s" % (len(passed), len(stable & passed), len(stable), missing[:10]))
PY
git -C /repo status --short | head -5
