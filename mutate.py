#!/venv/bin/python
"""usage: mutate.py <file under /repo> <old> <new> [occurrence index | all]  -- in-place literal replace"""
import sys
f, old, new = sys.argv[1:4]
occ = sys.argv[4] if len(sys.argv) > 4 else "0"
p = "/repo/" + f if not f.startswith("/") else f
s = open(p).read()
n = s.count(old)
if n == 0:
    sys.exit("pattern not found")
if occ == "all":
    s = s.replace(old, new)
else:
    k = int(occ)
    idx = -1
    for _ in range(k + 1):
        idx = s.index(old, idx + 1)
    s = s[:idx] + new + s[idx + len(old):]
open(p, "w").write(s)
print("mutated %s (%d occurrences, replaced %s)" % (f, n, occ))
