#!/venv/bin/python
"""Confirm a seeded change produced by a sub-agent and file it under /verif/seeded/<id>/.
usage: seedeval.py <id>   (expects /tmp/seed_out/<id>/{patch.diff,demo.py,meta.json})
Steps (all in a scratch worktree outside /repo and /verif, removed afterwards):
  1. patch applies to /repo HEAD;  2. demo passes without and fails with the patch;
  3. the baseline test command still passes all 490 baseline tests with the patch applied."""
import json
import os
import shutil
import subprocess
import sys
import xml.etree.ElementTree as ET

sid = sys.argv[1]
src = "/tmp/seed_out/" + sid
wt = "/tmp/wt_eval_" + sid
out = {"id": sid}


def run(cmd, cwd=None, timeout=1800):
    import signal

    p = subprocess.Popen(cmd, shell=True, cwd=cwd, stdout=subprocess.PIPE, stderr=subprocess.STDOUT, text=True, start_new_session=True)
    try:
        out, _ = p.communicate(timeout=timeout)
    except subprocess.TimeoutExpired:
        try:
            os.killpg(p.pid, signal.SIGKILL)  # the whole session: pytest and its pool workers
        except ProcessLookupError:
            pass
        p.wait()
        return 124, "timeout"
    return p.returncode, (out or "")[-1500:]


try:
    subprocess.run("git -C /repo worktree remove --force %s" % wt, shell=True, capture_output=True)
    rc, o = run("git -C /repo worktree add --detach %s HEAD -q" % wt)
    assert rc == 0, o
    if "c_rain" in open(src + "/patch.diff").read() or sid.startswith(("C05", "C09", "C10")):
        run("/venv/bin/python setup.py build_ext --inplace", cwd=wt)
    rc0, o0 = run("/venv/bin/python %s/demo.py" % src, cwd=wt, timeout=600)
    out["demo_original_rc"] = rc0
    rc, o = run("git apply %s/patch.diff" % src, cwd=wt)
    out["patch_applies"] = rc == 0
    if rc == 0:
        if "c_rain" in open(src + "/patch.diff").read():
            run("/venv/bin/python setup.py build_ext --inplace", cwd=wt)
        rc1, o1 = run("/venv/bin/python %s/demo.py" % src, cwd=wt, timeout=600)
        out["demo_patched_rc"] = rc1
        out["demo_patched_tail"] = o1[-400:]
        xml = "/tmp/seed_%s.xml" % sid
        for attempt in range(2):  # a suite run can hang in a multiprocessing test when the machine is overloaded
            rcs, _ = run("/venv/bin/python -m pytest -q -p no:cacheprovider --timeout=900 --continue-on-collection-errors --junitxml=%s" % xml, cwd=wt, timeout=2400)
            if rcs != 124 and os.path.exists(xml):
                break
        base = json.load(open("/root/.vp/BASELINE.json"))
        stable = set(base["stable_pass"])
        passed = set()
        for tc in ET.parse(xml).getroot().iter("testcase"):
            if not any(c.tag in ("failure", "error", "skipped") for c in tc):
                passed.add(tc.get("classname") + "::" + tc.get("name"))
        missing = sorted(stable - passed)
        # load-sensitive tests (e.g. test_cb::test_cbcheck_determinate, test_fdepsd::test_fdepsd_absacce): re-run alone
        for t in missing[:4]:
            mod, name = t.split("::")
            for _try in range(3):  # known flaky tests fail about 1 time in 8 even alone
                rc2, o2 = run("/venv/bin/python -m pytest -q -p no:cacheprovider --timeout=900 %s.py::%s" % (mod.replace(".", "/"), name), cwd=wt, timeout=900)
                if rc2 == 0:
                    break
            if rc2 == 0:
                passed.add(t)
                out.setdefault("passed_when_rerun_alone", []).append(t)
        out["suite_baseline_passing"] = len(stable & passed)
        out["suite_missing"] = sorted(stable - passed)[:10]
        os.remove(xml)
    out["confirmed"] = bool(out.get("patch_applies") and out.get("demo_original_rc") == 0 and out.get("demo_patched_rc") == 1
                            and out.get("suite_baseline_passing") == 490)
finally:
    subprocess.run("git -C /repo worktree remove --force %s" % wt, shell=True, capture_output=True)
    shutil.rmtree(wt, ignore_errors=True)
dst = "/verif/seeded/" + sid
if out.get("confirmed"):
    os.makedirs(dst, exist_ok=True)
    shutil.copy(src + "/patch.diff", dst)
    shutil.copy(src + "/demo.py", dst)
    meta = json.load(open(src + "/meta.json"))
    meta["confirmation"] = out
    json.dump(meta, open(dst + "/meta.json", "w"), indent=1)
print(json.dumps(out))
