#!/bin/bash
# usage: seedrun.sh <seed id> [PROP ...]  : apply /verif/seeded/<id>/patch.diff (or /tmp/seed_out) to /repo, run quick checks, restore
S=$1; shift
P=/verif/seeded/$S/patch.diff; [ -f $P ] || P=/tmp/seed_out/$S/patch.diff
PROPS="$@"; [ -z "$PROPS" ] && PROPS=${S%%_*}
git -C /repo apply $P || { echo "patch does not apply"; exit 9; }
for PR in $PROPS; do
  cd /verif && timeout 1500 /venv/bin/python -m vf.run $PR --tier ${TIER:-quick} 2>&1 | grep -E "^(VIOLATION|KNOWN|HARNESS|C[0-9]+ tier)" | cut -c1-260 | head -${LINES_OUT:-4}
done
git -C /repo checkout -- .
echo "seed $S done; repo dirty files: $(git -C /repo status --short | wc -l)"
