#!/bin/bash
# usage: seedrun.sh <seed id> [PROP ...]  : apply /verif/seeded/<id>/patch.diff (or /tmp/seed_out/<id>) to a scratch worktree of
# /repo, run the quick checks against it (VERIF_REPO), remove the worktree.  /repo itself and /verif/evidence are not touched.
S=$1; shift
P=/verif/seeded/$S/patch.diff; [ -f $P ] || P=/tmp/seed_out/$S/patch.diff
PROPS="$@"; [ -z "$PROPS" ] && PROPS=${S%%_*}
WT=/tmp/wt_seedrun_$S
git -C /repo worktree remove --force $WT >/dev/null 2>&1
git -C /repo worktree add --detach $WT HEAD -q || exit 9
git -C $WT apply $P || { echo "patch does not apply"; git -C /repo worktree remove --force $WT; exit 9; }
for PR in $PROPS; do
  cd /verif && VERIF_REPO=$WT VERIF_OUT=/tmp/vf_seed_out/$S timeout 2400 /venv/bin/python -m vf.run $PR --tier ${TIER:-quick} 2>&1 | grep -E "^(VIOLATION|KNOWN|HARNESS|C[0-9]+ tier)" | cut -c1-260 | head -${LINES_OUT:-4}
done
git -C /repo worktree remove --force $WT
rm -rf /tmp/vf_seed_out/$S
echo "seed $S done"
