CONSTANTS
  LF = 3
  W = 2
SPECIFICATION Spec
INVARIANT TypeOK
INVARIANT InFlight
