---------------------------- MODULE Pool ----------------------------
(* Environment model of multiprocessing.Pool(...).imap_unordered with   *)
(* chunksize 1 as used by pyyeti.srs.srs and pyyeti.fdepsd.fdepsd:       *)
(* LF tasks are handed out in index order to whichever of W workers is   *)
(* idle; a busy worker eventually completes its task.  Tasks are atomic  *)
(* (justified by the footprint pass of check C09); a task takes effect   *)
(* when it completes.  hist records (worker, task) in completion order,  *)
(* so distinct terminal states are exactly the distinct schedules.       *)
EXTENDS Naturals, Sequences
CONSTANTS LF, W
VARIABLES next, busy, hist
vars == <<next, busy, hist>>
Workers == 1..W
Init == /\ next = 1
        /\ busy = [w \in Workers |-> 0]
        /\ hist = <<>>
Dispatch(w) == /\ busy[w] = 0
               /\ next <= LF
               /\ busy' = [busy EXCEPT ![w] = next]
               /\ next' = next + 1
               /\ UNCHANGED hist
Complete(w) == /\ busy[w] # 0
               /\ hist' = Append(hist, <<w, busy[w]>>)
               /\ busy' = [busy EXCEPT ![w] = 0]
               /\ UNCHANGED next
Next == \E w \in Workers : Dispatch(w) \/ Complete(w)
Spec == Init /\ [][Next]_vars
TypeOK == /\ next \in 1..(LF + 1)
          /\ Len(hist) <= LF
InFlight == \A w \in Workers : busy[w] < next
=====================================================================
